#!/bin/sh
# offline setup: only verifies that the pre-installed tools are present
for t in cbmc goto-cc goto-instrument cvc5 z3 gcc python3 ar; do
  command -v $t >/dev/null 2>&1 || { echo "missing tool: $t"; exit 1; }
done
mkdir -p /verif/evidence /verif/replays
exit 0
