#include "config.h"
#include <stdlib.h>
#include <string.h>
#include "xrayglob.h"
#include "xraylib.h"
#include "xraylib-error-private.h"
int nondet_int(void); double nondet_double(void); char nondet_char(void);
int g_nerr;
static void stub_fail(xrl_error **error){ if (error) { __CPROVER_assert(*error == NULL, "no overwrite of an existing error"); *error = (xrl_error*)1; } g_nerr++; }
void xrl_set_error_literal(xrl_error **err, xrl_error_code code, const char *message){ stub_fail(err); }
void xrl_set_error(xrl_error **err, xrl_error_code code, const char *fmt, ...){ stub_fail(err); }
double __CPROVER_uninterpreted_vol(double,double,double,double,double,double);
/* libm as UF */
double cos(double x){ double __CPROVER_uninterpreted_cos(double); return __CPROVER_uninterpreted_cos(x);} 
double sqrt(double x){ double __CPROVER_uninterpreted_sqrt(double); return __CPROVER_uninterpreted_sqrt(x);} 
double pow(double x,double y){ double __CPROVER_uninterpreted_pow(double,double); return __CPROVER_uninterpreted_pow(x,y);} 
void *bsearch(const void *key, const void *base, size_t n, size_t sz, int (*cmp)(const void*, const void*)){
  for (size_t i = 0; i < n; i++) { const char *p = (const char*)base + i*sz; if (cmp(key,p)==0) return (void*)p; }
  return NULL;
}
void qsort(void *base, size_t n, size_t sz, int (*cmp)(const void*, const void*)){
  char tmp[96]; __CPROVER_assert(sz <= 96, "elem size");
  for (size_t i = 1; i < n; i++) for (size_t j = i; j > 0; j--) { char *a=(char*)base+(j-1)*sz, *b=(char*)base+j*sz; if (cmp(a,b) > 0) { memcpy(tmp,a,sz); memcpy(a,b,sz); memcpy(b,tmp,sz);} }
}
static Crystal_Struct mk(char c){ Crystal_Struct s; static char n1[2], n2[2]; static Crystal_Atom at[1]; char *nm = (c=='a')?n1:n2; nm[0]=c; nm[1]=0; s.name=nm; s.a=nondet_double(); s.b=nondet_double(); s.c=nondet_double(); s.alpha=nondet_double(); s.beta=nondet_double(); s.gamma=nondet_double(); s.volume=0; s.n_atom=1; s.atom=at; return s; }
void h_cryst(void){
  xrl_error *e=NULL; g_nerr=0;
  Crystal_Array *arr = Crystal_ArrayInit(1, &e);
  __CPROVER_assume(arr != NULL);
  Crystal_Struct c1 = mk('b'), c2 = mk('a');
  int r1 = Crystal_AddCrystal(&c1, arr, &e);
  __CPROVER_assert(r1 == 1 && arr->n_crystal == 1, "first add succeeds");
  int r2 = Crystal_AddCrystal(&c2, arr, &e);          /* crosses the initial capacity */
  __CPROVER_assert(r2 == 1, "second add succeeds (growth is transparent)");
  __CPROVER_assert(arr->n_crystal == 2, "array holds both crystals");
  Crystal_Struct *g = Crystal_GetCrystal("a", arr, &e);
  __CPROVER_assert(g != NULL, "added crystal retrievable");
  Crystal_Free(g);
  Crystal_ArrayFree(arr);
}
