#include "config.h"
#include <string.h>
#include "xraylib.h"
#include "xraylib-nist-compounds-internal.h"
void lemma_nist_wf(void){
  for (int i = 0; i < nCompoundDataNISTList; i++) {
    const struct compoundDataNIST *c = &compoundDataNISTList[i];
    __CPROVER_assert(c->nElements >= 1, "at least one element");
    double s = 0.0;
    for (int j = 0; j < c->nElements; j++) {
      __CPROVER_assert(c->Elements[j] >= 1 && c->Elements[j] <= 103, "valid Z");
      __CPROVER_assert(j == 0 || c->Elements[j-1] < c->Elements[j], "ascending");
      __CPROVER_assert(c->massFractions[j] > 0.0, "positive fraction");
      s += c->massFractions[j];
    }
    __CPROVER_assert(s > 1.0 - 1e-4 && s < 1.0 + 1e-4, "fractions sum to 1");
    __CPROVER_assert(c->density > 0.0, "positive density");
    __CPROVER_assert(i == 0 || strcmp(compoundDataNISTList[i-1].name, c->name) < 0, "names strictly sorted => unique");
  }
}
