#include "config.h"
#include <stdlib.h>
#include <string.h>
#include "xrayglob.h"
#include "xraylib.h"
#include "xraylib-error-private.h"
#ifndef L
#define L 3
#endif
int nondet_int(void); double nondet_double(void); char nondet_char(void);
int g_nerr;
static void stub_fail(xrl_error **error){ if (error) { __CPROVER_assert(*error == NULL, "no overwrite of an existing error"); *error = (xrl_error*)1; } g_nerr++; }
void xrl_set_error_literal(xrl_error **err, xrl_error_code code, const char *message){ stub_fail(err); }
void xrl_set_error(xrl_error **err, xrl_error_code code, const char *fmt, ...){ stub_fail(err); }
double AtomicWeight(int Z, xrl_error **error){ if (Z<1||Z>ZMAX||!(AtomicWeight_arr[Z] > 0.0)) { stub_fail(error); return 0.0;} return AtomicWeight_arr[Z]; }
/* ghost locale: 0 = "C", 1 = the caller's locale */
int g_locale; static char LOC_C[] = "C"; static char LOC_USER[] = "xx_XX";
char *setlocale(int cat, const char *loc){
  if (loc == NULL) return g_locale ? LOC_USER : LOC_C;
  if (loc[0]=='C' && loc[1]==0) g_locale = 0; else if (strcmp(loc, LOC_USER)==0) g_locale = 1; else return NULL;
  return g_locale ? LOC_USER : LOC_C;
}
/* assumed libc contracts, executable form */
extern int matchMendelElement(const void *, const void *);
void *bsearch(const void *key, const void *base, size_t n, size_t sz, int (*cmp)(const void*, const void*)){
  if (cmp == matchMendelElement) { /* assumed: NULL, or some element of the table (which one is irrelevant to safety) */
    if (nondet_int()) return NULL; static struct MendelElement ghost; int z=nondet_int(); __CPROVER_assume(z>=1 && z<=MENDEL_MAX); ghost.Zatom=z; return &ghost; }
  for (size_t i = 0; i < n; i++) { const char *p = (const char*)base + i*sz; if (cmp(key,p)==0) return (void*)p; }
  return NULL;
}
void qsort(void *base, size_t n, size_t sz, int (*cmp)(const void*, const void*)){
  /* insertion sort on small n */
  char tmp[32]; __CPROVER_assert(sz <= 32, "elem size");
  for (size_t i = 1; i < n; i++) for (size_t j = i; j > 0; j--) { char *a=(char*)base+(j-1)*sz, *b=(char*)base+j*sz; if (cmp(a,b) > 0) { memcpy(tmp,a,sz); memcpy(a,b,sz); memcpy(b,tmp,sz);} }
}
void h_parser(void){
  char s[L+1];
  for (int i=0;i<L;i++) s[i]=nondet_char();
  s[L]=0;
  xrl_error *e=NULL; g_nerr=0; g_locale=1;
  struct compoundData *cd = CompoundParser(s, &e);
  __CPROVER_assert(g_locale == 1, "numeric locale restored");
  __CPROVER_assert((cd != NULL) == (e == NULL), "NULL iff error");
  if (cd) { __CPROVER_assert(cd->nElements >= 1, "at least one element"); FreeCompoundData(cd); }
}
