#define ZMAX 120
double AW[ZMAX+1];
double __CPROVER_uninterpreted_f(int Z, double E);
double nondet_double(void);
int nondet_int(void);
double body(int Z, double E){
  double cs = nondet_double();
  __CPROVER_assume(cs == __CPROVER_uninterpreted_f(Z,E));
  __CPROVER_assume(cs != 0.0 ==> (Z>=1 && Z<=ZMAX));
  if (cs == 0.0) return 0.0;
  double aw = nondet_double();
  __CPROVER_assume(aw == 0.0 || (Z >= 1 && Z <= ZMAX && aw == AW[Z]));
  if (aw == 0.0) return 0.0;
  return cs*aw/0.602214129;
}
int main(void){
  int Z = nondet_int(); double E = nondet_double();
  double r = body(Z,E);
#ifdef V1
  __CPROVER_assert(r != 0.0 ==> r == __CPROVER_uninterpreted_f(Z,E) * AW[Z] / 0.602214129, "same");
#else
  double e = __CPROVER_uninterpreted_f(Z,E) * AW[Z] / 0.602214129;
  __CPROVER_assert(r != 0.0 ==> (r==e), "same");
#endif
}
