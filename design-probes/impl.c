#include "c1.h"
double EdgeEnergy_arr[ZMAX+1][SHELLNUM];
double EdgeEnergy(int Z, int shell, xrl_error **error)
{
  double edge_energy;
  if (Z < 1 || Z > ZMAX) {
    xrl_set_error_literal(error, XRL_ERROR_INVALID_ARGUMENT, "Z");
    return 0;
  }
  if (shell < 0 || shell >= SHELLNUM) {
    xrl_set_error_literal(error, XRL_ERROR_INVALID_ARGUMENT, "S");
    return 0;
  }
  edge_energy = EdgeEnergy_arr[Z][shell];
  if (edge_energy <= 0.) {
    xrl_set_error_literal(error, XRL_ERROR_INVALID_ARGUMENT, "I");
    return 0;
  }
  return edge_energy;
}
