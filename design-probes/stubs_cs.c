#include "config.h"
#include "xrayglob.h"
#include "xraylib.h"
#include "xraylib-error-private.h"
/* UF view of the three interpolated components (justified by their purity lemmas) */
double __CPROVER_uninterpreted_CS_Photo(int, double);
double __CPROVER_uninterpreted_CS_Rayl(int, double);
double __CPROVER_uninterpreted_CS_Compt(int, double);
int g_nerr; /* ghost: number of errors stored */
static void stub_fail(xrl_error **error){ if (error) { __CPROVER_assert(*error == NULL, "no overwrite of an existing error"); *error = (xrl_error*)1; } g_nerr++; }
#define STUB(name) double name(int Z, double E, xrl_error **error){ double v = __CPROVER_uninterpreted_##name(Z,E); __CPROVER_assume(!__CPROVER_isnand(v) && v >= 0.0 && !__CPROVER_isinfd(v)); __CPROVER_assume(v != 0.0 ==> (Z>=1 && Z<=ZMAX && E > 0.0)); if (v == 0.0) stub_fail(error); return v; }
STUB(CS_Photo) STUB(CS_Rayl) STUB(CS_Compt)
void xrl_set_error_literal(xrl_error **err, xrl_error_code code, const char *message){ stub_fail(err); }

void lemma_CS_Total(void){
  int Z; double E; xrl_error *e = NULL;
  __CPROVER_assume(!__CPROVER_isnand(E));
  g_nerr = 0;
  double t = CS_Total(Z, E, &e);
  double p = __CPROVER_uninterpreted_CS_Photo(Z,E), r = __CPROVER_uninterpreted_CS_Rayl(Z,E), c = __CPROVER_uninterpreted_CS_Compt(Z,E);
  int defined = (Z>=1 && Z<=ZMAX && NE_Photo[Z] >= 0 && NE_Rayl[Z] >= 0 && NE_Compt[Z] >= 0 && E > 0.0 && p != 0.0 && r != 0.0 && c != 0.0);
  if (defined) { __CPROVER_assert(t == p + r + c, "total = photo + rayleigh + compton"); __CPROVER_assert(e == NULL && g_nerr == 0, "no error when defined"); }
  else { __CPROVER_assert(t == 0.0, "no partial sum"); __CPROVER_assert(e != NULL && g_nerr == 1, "exactly one error when a part is undefined"); }
}
