#include "config.h"
#include "xraylib.h"
#include "xrf_cross_sections_aux-private.h"
#include "augersums.h"
double __CPROVER_uninterpreted_AugerRate(int,int);
double __CPROVER_uninterpreted_AugerYield(int,int);
double __CPROVER_uninterpreted_FluorYield(int,int);
double __CPROVER_uninterpreted_RadRate(int,int);
#define R3(v) __CPROVER_assume((v)==0.0 || (v)==1.0 || (v)==2.0)
double AugerRate(int Z,int t,xrl_error **e){ double v=__CPROVER_uninterpreted_AugerRate(Z,t); R3(v); return v;} 
double AugerYield(int Z,int s,xrl_error **e){ double v=__CPROVER_uninterpreted_AugerYield(Z,s); R3(v); return v;} 
double FluorYield(int Z,int s,xrl_error **e){ double v=__CPROVER_uninterpreted_FluorYield(Z,s); R3(v); return v;} 
double RadRate(int Z,int l,xrl_error **e){ double v=__CPROVER_uninterpreted_RadRate(Z,l); R3(v); return v;} 
#define A(t) __CPROVER_uninterpreted_AugerRate(Z,t)
#define SAME(a,b) ((a)==(b) || (__CPROVER_isnand(a) && __CPROVER_isnand(b)))
void lemma(void){
  int Z;
  double r1 = PL1_get_cross_sections_constant_auger_only(Z, K_SHELL);
  double e1 = __CPROVER_uninterpreted_AugerYield(Z,K_SHELL) * EXPECT_AUGERSUM_L1_from_K;
  __CPROVER_assert(SAME(r1,e1), "PL1 auger-only from K = yield x name-derived sum");
  double r2 = PL1_get_cross_sections_constant_full(Z, K_SHELL);
  double e2 = __CPROVER_uninterpreted_FluorYield(Z,K_SHELL)*__CPROVER_uninterpreted_RadRate(Z,KL1_LINE) + __CPROVER_uninterpreted_AugerYield(Z,K_SHELL) * EXPECT_AUGERSUM_L1_from_K;
  __CPROVER_assert(SAME(r2,e2), "PL1 full from K");
  double r3 = PM3_get_cross_sections_constant_auger_only(Z, L2_SHELL);
  double e3 = __CPROVER_uninterpreted_AugerYield(Z,L2_SHELL) * EXPECT_AUGERSUM_M3_from_L2;
  __CPROVER_assert(SAME(r3,e3), "PM3 auger-only from L2");
  double r4 = PM3_get_cross_sections_constant_full(Z, L3_SHELL);
  double e4 = __CPROVER_uninterpreted_FluorYield(Z,L3_SHELL)*__CPROVER_uninterpreted_RadRate(Z,L3M3_LINE) + __CPROVER_uninterpreted_AugerYield(Z,L3_SHELL) * EXPECT_AUGERSUM_M3_from_L3;
  __CPROVER_assert(SAME(r4,e4), "PM3 full from L3");
}
