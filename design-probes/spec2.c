#include "config.h"
#include "xrayglob.h"
#include "xraylib.h"
#include "xraylib-error-private.h"

double __CPROVER_uninterpreted_CS_Photo(int Z, double E);

#define ERR_SLOT_OK(error) ((error) == NULL || (__CPROVER_is_fresh((error), sizeof(*(error))) && *(error) == NULL))
#define ERR_UNSET(error) ((error) == NULL || *(error) == NULL)
#define ERR_SET(error) ((error) == NULL || *(error) != NULL)

double CS_Photo(int Z, double E, xrl_error **error)
__CPROVER_requires(ERR_SLOT_OK(error))
__CPROVER_assigns(error != NULL: *error)
__CPROVER_ensures(__CPROVER_return_value == __CPROVER_uninterpreted_CS_Photo(Z, E))
__CPROVER_ensures(__CPROVER_return_value != 0.0 ==> (Z >= 1 && Z <= ZMAX && ERR_UNSET(error)))
__CPROVER_ensures(__CPROVER_return_value == 0.0 ==> (error == NULL || (*error != NULL && __CPROVER_is_fresh(*error, sizeof(xrl_error)))))
;

double AtomicWeight(int Z, xrl_error **error)
__CPROVER_requires(error == NULL || (__CPROVER_is_fresh(error, sizeof(*error))))
__CPROVER_requires((Z >= 1 && Z <= ZMAX) ==> !__CPROVER_isnand(AtomicWeight_arr[Z]))
__CPROVER_assigns(error != NULL: *error)
__CPROVER_ensures(
  (Z >= 1 && Z <= ZMAX && AtomicWeight_arr[Z] > 0.0)
    ? (__CPROVER_return_value == AtomicWeight_arr[Z] && (error == NULL || *error == __CPROVER_old(*error)))
    : (__CPROVER_return_value == 0.0 && (error == NULL || __CPROVER_old(*error) != NULL || *error != NULL)))
;

double CSb_Photo(int Z, double E, xrl_error **error)
__CPROVER_requires(ERR_SLOT_OK(error))
__CPROVER_requires((Z >= 1 && Z <= ZMAX) ==> !__CPROVER_isnand(AtomicWeight_arr[Z]))
__CPROVER_assigns(error != NULL: *error)
__CPROVER_ensures(
   (__CPROVER_uninterpreted_CS_Photo(Z, E) != 0.0 && AtomicWeight_arr[Z] > 0.0)
   ? (__CPROVER_return_value == __CPROVER_uninterpreted_CS_Photo(Z, E) * AtomicWeight_arr[Z] / AVOGNUM && ERR_UNSET(error))
   : (__CPROVER_return_value == 0.0 && ERR_SET(error)))
;

void h_CSb_Photo(void){
  int Z; double E; xrl_error **error;
  CSb_Photo(Z, E, error);
}
