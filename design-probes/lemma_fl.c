#include "config.h"
#include "xrayglob.h"
#include "xraylib.h"
#include "xraylib-error-private.h"
#include "shell_of_line.h"
double __CPROVER_uninterpreted_RadRate(int,int);
double __CPROVER_uninterpreted_CS_Photo(int,double);
double __CPROVER_uninterpreted_EdgeEnergy(int,int);
double __CPROVER_uninterpreted_JumpFactor(int,int);
double __CPROVER_uninterpreted_FluorYield(int,int);
double __CPROVER_uninterpreted_CosKron(int,int);
int g_nerr;
static void stub_fail(xrl_error **error){ if (error) { __CPROVER_assert(*error == NULL, "no overwrite of an existing error"); *error = (xrl_error*)1; } g_nerr++; }
void xrl_set_error_literal(xrl_error **err, xrl_error_code code, const char *message){ stub_fail(err); }
#define NONNEG(v) __CPROVER_assume(!__CPROVER_isnand(v) && !__CPROVER_isinfd(v) && v >= 0.0)
double RadRate(int Z, int line, xrl_error **e){ double v=__CPROVER_uninterpreted_RadRate(Z,line); NONNEG(v); if (v==0.0) stub_fail(e); return v; }
double CS_Photo(int Z, double E, xrl_error **e){ double v=__CPROVER_uninterpreted_CS_Photo(Z,E); NONNEG(v); __CPROVER_assume(v!=0.0 ==> (Z>=1&&Z<=ZMAX&&E>0.0)); if (v==0.0) stub_fail(e); return v; }
double EdgeEnergy(int Z, int s, xrl_error **e){ double v=__CPROVER_uninterpreted_EdgeEnergy(Z,s); NONNEG(v); if (v==0.0) stub_fail(e); return v; }
double JumpFactor(int Z, int s, xrl_error **e){ double v=__CPROVER_uninterpreted_JumpFactor(Z,s); NONNEG(v); if (v==0.0) stub_fail(e); return v; }
double FluorYield(int Z, int s, xrl_error **e){ double v=__CPROVER_uninterpreted_FluorYield(Z,s); NONNEG(v); if (v==0.0) stub_fail(e); return v; }
double CosKronTransProb(int Z, int t, xrl_error **e){ double v=__CPROVER_uninterpreted_CosKron(Z,t); NONNEG(v); if (v==0.0) stub_fail(e); return v; }
double __CPROVER_uninterpreted_Shell(int,int,double);
/* lemma 1: line -> shell dispatch of CS_FluorLine, for every int line; CS_FluorShell stubbed */
#ifdef LEMMA_LINE
double CS_FluorShell(int Z, int shell, double E, xrl_error **e){ double v=__CPROVER_uninterpreted_Shell(Z,shell,E); NONNEG(v); if (v==0.0) stub_fail(e); return v; }
void lemma(void){
  int Z, line; double E; xrl_error *e=NULL; g_nerr=0;
  __CPROVER_assume(!__CPROVER_isnand(E) && !__CPROVER_isinfd(E));
  __CPROVER_assume(line != LB_LINE);
  double r = CS_FluorLine(Z, line, E, &e);
  int sh = (line == KA_LINE || line == KB_LINE) ? K_SHELL : (line == LA_LINE ? L3_SHELL : ((line < 0 && line >= -383) ? SHELL_OF_LINE[-line] : -1));
  double rr = __CPROVER_uninterpreted_RadRate(Z,line);
  if (sh >= 0 && rr != 0.0 && __CPROVER_uninterpreted_Shell(Z,sh,E) != 0.0) {
     __CPROVER_assert(r == rr * __CPROVER_uninterpreted_Shell(Z,sh,E), "line = rate x shell of the line's initial level");
     __CPROVER_assert(e == NULL, "no error");
     __CPROVER_assert(0, "CANARY defined branch reachable");
  } else {
     __CPROVER_assert(r == 0.0 && e != NULL && g_nerr == 1, "undefined => 0 and exactly one error");
     __CPROVER_assert(0, "CANARY undefined branch reachable");
  }
}
#endif
