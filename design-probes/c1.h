#include <stddef.h>
#define ZMAX 120
#define SHELLNUM 28
typedef struct _xrl_error xrl_error;
typedef enum {XRL_ERROR_MEMORY, XRL_ERROR_INVALID_ARGUMENT} xrl_error_code;
struct _xrl_error { xrl_error_code code; char *message; };
extern double EdgeEnergy_arr[ZMAX+1][SHELLNUM];
void xrl_set_error_literal(xrl_error **err, xrl_error_code code, const char *message);
double EdgeEnergy(int Z, int shell, xrl_error **error);
