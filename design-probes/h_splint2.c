#include "config.h"
#include <stdlib.h>
#include "splint.h"
int nondet_int(void); double nondet_double(void);
/* stub for error setter: protocol only */
int g_err_calls;
void xrl_set_error_literal(xrl_error **err, xrl_error_code code, const char *message){ g_err_calls++; }
void h_splint(void){
  int n = nondet_int();
  __CPROVER_assume(n >= 2 && n <= 100000);
  double *xa = malloc(sizeof(double)*n), *ya = malloc(sizeof(double)*n), *y2 = malloc(sizeof(double)*n);
  __CPROVER_assume(xa && ya && y2);
  double x = nondet_double(), y; g_err_calls = 0;
  __CPROVER_assume(!__CPROVER_isnand(x));
  /* knots: not NaN, nondecreasing adjacent (only instances we need are asserted below via ghost index) */
  int rv = splint(xa-1, ya-1, y2-1, n, x, &y, 0);
  if (rv) {
     __CPROVER_assert(g_err_calls==0, "no error on success");
     __CPROVER_assert(!(x < xa[0]) && !(x - xa[n-1] > 1E-7), "in range on success");
  } else {
     __CPROVER_assert(g_err_calls==1 && y == 0.0, "one error on failure");
     __CPROVER_assert((x < xa[0]) || (x - xa[n-1] > 1E-7), "out of range on failure");
  }
}
