#include "config.h"
#include <stdlib.h>
#include <string.h>
#include "xrayglob.h"
#include "xraylib.h"
#include "xraylib-error-private.h"
#ifndef NMAX
#define NMAX 3
#endif
int nondet_int(void); double nondet_double(void); char nondet_char(void);
int g_nerr;
static void stub_fail(xrl_error **error){ if (error) { __CPROVER_assert(*error == NULL, "no overwrite of an existing error"); *error = (xrl_error*)1; } g_nerr++; }
void xrl_set_error_literal(xrl_error **err, xrl_error_code code, const char *message){ stub_fail(err); }
double AtomicWeight(int Z, xrl_error **error){ if (Z<1||Z>ZMAX||!(AtomicWeight_arr[Z] > 0.0)) { stub_fail(error); return 0.0;} return AtomicWeight_arr[Z]; }
int g_locale; static char LOC_C[] = "C"; static char LOC_USER[] = "xx_XX";
char *setlocale(int cat, const char *loc){
  if (loc == NULL) return g_locale ? LOC_USER : LOC_C;
  if (loc[0]=='C' && loc[1]==0) g_locale = 0; else if (strcmp(loc, LOC_USER)==0) g_locale = 1; else return NULL;
  return g_locale ? LOC_USER : LOC_C;
}
struct compoundAtom { int Element; double nAtoms; };
struct compoundAtoms { int nElements; struct compoundAtom *singleElements; };
/* assumed contract of the scanner: 0 + one error, or n ascending distinct Z in 1..107 with finite positive counts */
int __CPROVER_file_local_xraylib_parser_c_CompoundParserSimple(char s[], struct compoundAtoms *ca, xrl_error **error){
  __CPROVER_assert(g_locale == 0, "scanner (strtod) runs in the C numeric locale");
  if (nondet_int()) { stub_fail(error); return 0; }
  int n = nondet_int(); __CPROVER_assume(n >= 1 && n <= NMAX);
  ca->nElements = n; ca->singleElements = malloc(sizeof(struct compoundAtom)*n); __CPROVER_assume(ca->singleElements);
  for (int i = 0; i < n; i++) { int z = nondet_int(); double c = nondet_double();
     __CPROVER_assume(z >= 1 && z <= MENDEL_MAX && (i == 0 || z > ca->singleElements[i-1].Element));
     __CPROVER_assume(c > 0.0 && c < 1e6);
     ca->singleElements[i].Element = z; ca->singleElements[i].nAtoms = c; }
  return 1;
}
void h_cp(void){
  char s[2]; s[0]=nondet_char(); s[1]=0;
  xrl_error *e=NULL; g_nerr=0; g_locale=1;
  __CPROVER_assume(AtomicWeight_arr[0] == 0.0);
  struct compoundData *cd = CompoundParser(s, &e);
  __CPROVER_assert(g_locale == 1, "numeric locale restored");
  __CPROVER_assert((cd != NULL) == (e == NULL), "NULL iff error");
  if (cd) {
    __CPROVER_assert(cd->nElements >= 1 && cd->nElements <= NMAX, "element count");
    int k = nondet_int(); __CPROVER_assume(k >= 0 && k < cd->nElements);
    __CPROVER_assert(AtomicWeight_arr[cd->Elements[k]] > 0.0, "every accepted element has an atomic weight");
    __CPROVER_assert(cd->massFractions[k] == AtomicWeight_arr[cd->Elements[k]] * cd->nAtoms[k] / cd->molarMass, "mass fraction = A n / M");
    __CPROVER_assert(!__CPROVER_isnand(cd->massFractions[k]), "fraction is a number");
    FreeCompoundData(cd);
  }
}
