double nd(void);
int main(void){
  double a=nd(), b=nd(), c=nd(), d=nd();
  __CPROVER_assume(a==c && b==d);
  __CPROVER_assume(!__CPROVER_isnand(a) && !__CPROVER_isnand(b));
  double r1 = a*b/0.602214129;
  double r2 = c*d/0.602214129;
  __CPROVER_assert(r1==r2 || (__CPROVER_isnand(r1) && __CPROVER_isnand(r2)), "same");
}
