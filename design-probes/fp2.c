double nondet_double(void);
int main(void){
  double a=nondet_double(), b=nondet_double();
  __CPROVER_assume(a>0 && b>0 && a < 1e300 && b < 1e300);
  double r1 = a*b/0.602214129;
  double r2 = a/b*0.602214129;
  __CPROVER_assert(r1==r2, "same");
}
