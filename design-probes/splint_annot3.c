/*
Copyright (c) 2009, Bruno Golosio, Antonio Brunetti, Manuel Sanchez del Rio, Tom Schoonjans and Teemu Ikonen
All rights reserved.

Redistribution and use in source and binary forms, with or without
modification, are permitted provided that the following conditions are met:
    * Redistributions of source code must retain the above copyright notice, this list of conditions and the following disclaimer.
    * Redistributions in binary form must reproduce the above copyright notice, this list of conditions and the following disclaimer in the documentation and/or other materials provided with the distribution.
    * The names of the contributors may not be used to endorse or promote products derived from this software without specific prior written permission.

THIS SOFTWARE IS PROVIDED BY Bruno Golosio, Antonio Brunetti, Manuel Sanchez del Rio, Tom Schoonjans and Teemu Ikonen ''AS IS'' AND ANY EXPRESS OR IMPLIED WARRANTIES, INCLUDING, BUT NOT LIMITED TO, THE IMPLIED WARRANTIES OF MERCHANTABILITY AND FITNESS FOR A PARTICULAR PURPOSE ARE DISCLAIMED. IN NO EVENT SHALL Bruno Golosio, Antonio Brunetti, Manuel Sanchez del Rio, Tom Schoonjans and Teemu Ikonen BE LIABLE FOR ANY DIRECT, INDIRECT, INCIDENTAL, SPECIAL, EXEMPLARY, OR CONSEQUENTIAL DAMAGES (INCLUDING, BUT NOT LIMITED TO, PROCUREMENT OF SUBSTITUTE GOODS OR SERVICES; LOSS OF USE, DATA, OR PROFITS; OR BUSINESS INTERRUPTION) HOWEVER CAUSED AND ON ANY THEORY OF LIABILITY, WHETHER IN CONTRACT, STRICT LIABILITY, OR TORT (INCLUDING NEGLIGENCE OR OTHERWISE) ARISING IN ANY WAY OUT OF THE USE OF THIS SOFTWARE, EVEN IF ADVISED OF THE POSSIBILITY OF SUCH DAMAGE.
*/

#include "config.h"
#include "splint.h"
#include "xraylib-error-private.h"

int lininterp(double xa[], double ya[], int n, double x, double *y, xrl_error **error) {
	int findpos = -1;
	int i;

	if (x - xa[n] > 1E-7) {
	  *y = 0.0;
	  xrl_set_error_literal(error, XRL_ERROR_INVALID_ARGUMENT, LININTERP_X_TOO_HIGH);
	  return 0;
	}

	if (x < xa[1]) {
	  *y = 0.0;
	  xrl_set_error_literal(error, XRL_ERROR_INVALID_ARGUMENT, LININTERP_X_TOO_LOW);
	  return 0;
	}

	for (i = 1 ; i <= n ; i++) {
		if (x < xa[i]) {
			findpos = i-1;
			break;
		}
	}

	*y = ya[findpos] + (ya[findpos+1]-ya[findpos])*(x-xa[findpos])/(xa[findpos+1]-xa[findpos]);

	return 1;
}



int splint(double xa[], double ya[], double y2a[], int n, double x, double *y, xrl_error **error) {
	int klo, khi, k;
	double h, b, a;

	if (x - xa[n] > 1E-7) {
	  *y = 0.0;
	  xrl_set_error_literal(error, XRL_ERROR_INVALID_ARGUMENT, SPLINT_X_TOO_HIGH);
	  return 0;
	}

	if (x < xa[1]) {
	  *y = 0.0;
	  xrl_set_error_literal(error, XRL_ERROR_INVALID_ARGUMENT, SPLINT_X_TOO_LOW);
	  return 0;
	}

	klo = 1;
	khi = n;
	while (khi-klo > 1)
	__CPROVER_assigns(k, klo, khi)
	__CPROVER_loop_invariant(1 <= klo && klo < khi && khi <= n && !(xa[klo] > x) && (xa[khi] > x || khi == n))
	__CPROVER_decreases(khi - klo)
	{
		k = (khi + klo) >> 1;
		if (xa[k] > x) khi = k;
		else klo = k;
	}

	__CPROVER_assert(khi == klo + 1 && !(xa[klo] > x) && (xa[khi] > x || khi == n), "XV bracket: result interval is adjacent and brackets x");
	h = xa[khi] - xa[klo];
	if (h == 0.0) {
	  *y = (ya[klo] + ya[khi])/2.0;
	  return 1;
	}
	a = (xa[khi] - x) / h;
	b = (x - xa[klo]) / h;
	*y = a*ya[klo] + b*ya[khi] + ((a*a*a-a)*y2a[klo]
	     + (b*b*b-b)*y2a[khi])*(h*h)/6.0;
	return 1;
}



