#include "c1.h"
/* contracts attached to declarations only */
void xrl_set_error_literal(xrl_error **err, xrl_error_code code, const char *message)
__CPROVER_requires(err == NULL || __CPROVER_is_fresh(err, sizeof(*err)))
__CPROVER_requires(message != NULL)
__CPROVER_assigns(err != NULL: *err)
__CPROVER_ensures(err != NULL ==> (__CPROVER_old(*err) == NULL ==> (*err != NULL && __CPROVER_is_fresh(*err, sizeof(xrl_error)) && (*err)->code == code)))
__CPROVER_ensures(err != NULL ==> (__CPROVER_old(*err) != NULL ==> *err == __CPROVER_old(*err)))
;
double EdgeEnergy(int Z, int shell, xrl_error **error)
__CPROVER_requires(error == NULL || (__CPROVER_is_fresh(error, sizeof(*error)) && *error == NULL))
__CPROVER_requires((Z >= 1 && Z <= ZMAX && shell >= 0 && shell < SHELLNUM) ==> !__CPROVER_isnand(EdgeEnergy_arr[Z][shell]))
__CPROVER_assigns(error != NULL: *error)
__CPROVER_ensures(
  (Z >= 1 && Z <= ZMAX && shell >= 0 && shell < SHELLNUM && EdgeEnergy_arr[Z][shell] > 0.0)
    ? (__CPROVER_return_value == EdgeEnergy_arr[Z][shell] && (error == NULL || *error == NULL))
    : (__CPROVER_return_value == 0.0 && (error == NULL || (*error != NULL && (*error)->code == XRL_ERROR_INVALID_ARGUMENT))))
;
void h_EdgeEnergy(void){
  int Z, shell; xrl_error **error;
  EdgeEnergy(Z, shell, error);
}
