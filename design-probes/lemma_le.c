#include "config.h"
#include "xrayglob.h"
#include "xraylib.h"
#include "xraylib-error-private.h"
double __CPROVER_uninterpreted_RadRate(int,int);
double __CPROVER_uninterpreted_CSFL(int,int,double);
double __CPROVER_uninterpreted_Edge(int,int);
int g_nerr;
static void stub_fail(xrl_error **error){ if (error) { __CPROVER_assert(*error == NULL, "no overwrite of an existing error"); *error = (xrl_error*)1; } g_nerr++; }
void xrl_set_error_literal(xrl_error **err, xrl_error_code code, const char *message){ stub_fail(err); }
#define NONNEG(v) __CPROVER_assume(!__CPROVER_isnand(v) && !__CPROVER_isinfd(v) && v >= 0.0)
double RadRate(int Z, int line, xrl_error **e){ double v=__CPROVER_uninterpreted_RadRate(Z,line); NONNEG(v); if (v==0.0) stub_fail(e); return v; }
double CS_FluorLine(int Z, int line, double E, xrl_error **e){ double v=__CPROVER_uninterpreted_CSFL(Z,line,E); NONNEG(v); if (v==0.0) stub_fail(e); return v; }
double EdgeEnergy(int Z, int s, xrl_error **e){ double v=__CPROVER_uninterpreted_Edge(Z,s); NONNEG(v); if (v==0.0) stub_fail(e); return v; }
/* member energies: what the public single-line query returns = table cell if positive */
static double E1(int Z, int line){ double v = LineEnergy_arr[Z][-line-1]; return v > 0.0 ? v : 0.0; }
static void doublet(int G, int M1, int M2){
  int Z; xrl_error *e=NULL; g_nerr=0;
  __CPROVER_assume(Z>=1 && Z<=ZMAX);
  __CPROVER_assume(!__CPROVER_isnand(LineEnergy_arr[Z][-M1-1]) && !__CPROVER_isnand(LineEnergy_arr[Z][-M2-1]) && !__CPROVER_isinfd(LineEnergy_arr[Z][-M1-1]) && !__CPROVER_isinfd(LineEnergy_arr[Z][-M2-1]));
  double r = LineEnergy(Z, G, &e);
  double e1=E1(Z,M1), e2=E1(Z,M2), r1=__CPROVER_uninterpreted_RadRate(Z,M1), r2=__CPROVER_uninterpreted_RadRate(Z,M2);
  double w = e1*r1 + e2*r2;
  if (w > 0.0) { __CPROVER_assert(r == w/(r1+r2) && e==NULL, "rate-weighted mean of exactly the two members"); }
  else if (e1+e2 > 0.0) { __CPROVER_assert(r == (e1+e2)/2.0 && e==NULL, "plain mean when no rates"); }
  else { __CPROVER_assert(r == 0.0 && e != NULL && g_nerr==1, "error when no member has an energy"); }
}
void lemma_L3O45(void){ doublet(L3O45_LINE, L3O4_LINE, L3O5_LINE); }
void lemma_L3P23(void){ doublet(L3P23_LINE, L3P2_LINE, L3P3_LINE); }
