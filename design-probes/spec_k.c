#include "config.h"
#include "xrayglob.h"
#include "xraylib.h"
#include "xraylib-error-private.h"
#include "xrf_cross_sections_aux.h"
#define SLOT(e) ((e) == NULL || (__CPROVER_is_fresh((e), sizeof(*(e))) && *(e) == NULL))
#define SLOT_CALLEE(e) ((e) == NULL || *(e) == NULL)
#define PROTO(e) ((__CPROVER_return_value != 0.0 ==> ((e) == NULL || *(e) == NULL)) && (__CPROVER_return_value == 0.0 ==> ((e) == NULL || (*(e) != NULL && __CPROVER_is_fresh(*(e), sizeof(xrl_error))))) && !__CPROVER_isnand(__CPROVER_return_value))
double PL1_pure_kissel(int Z, double E, xrl_error **error)
__CPROVER_requires(SLOT_CALLEE(error))
__CPROVER_assigns(error != NULL: *error)
__CPROVER_ensures(PROTO(error))
;

double PL1_rad_cascade_kissel(int Z, double E, double PK, xrl_error **error)
__CPROVER_requires(SLOT_CALLEE(error))
__CPROVER_assigns(error != NULL: *error)
__CPROVER_ensures(PROTO(error))
;

double PL1_auger_cascade_kissel(int Z, double E, double PK, xrl_error **error)
__CPROVER_requires(SLOT_CALLEE(error))
__CPROVER_assigns(error != NULL: *error)
__CPROVER_ensures(PROTO(error))
;

double PL1_full_cascade_kissel(int Z, double E, double PK, xrl_error **error)
__CPROVER_requires(SLOT_CALLEE(error))
__CPROVER_assigns(error != NULL: *error)
__CPROVER_ensures(PROTO(error))
;

double PL2_pure_kissel(int Z, double E, double PL1, xrl_error **error)
__CPROVER_requires(SLOT_CALLEE(error))
__CPROVER_assigns(error != NULL: *error)
__CPROVER_ensures(PROTO(error))
;

double PL2_rad_cascade_kissel(int Z, double E, double PK, double PL1, xrl_error **error)
__CPROVER_requires(SLOT_CALLEE(error))
__CPROVER_assigns(error != NULL: *error)
__CPROVER_ensures(PROTO(error))
;

double PL2_auger_cascade_kissel(int Z, double E, double PK, double PL1, xrl_error **error)
__CPROVER_requires(SLOT_CALLEE(error))
__CPROVER_assigns(error != NULL: *error)
__CPROVER_ensures(PROTO(error))
;

double PL2_full_cascade_kissel(int Z, double E, double PK, double PL1, xrl_error **error)
__CPROVER_requires(SLOT_CALLEE(error))
__CPROVER_assigns(error != NULL: *error)
__CPROVER_ensures(PROTO(error))
;

double PL3_pure_kissel(int Z, double E, double PL1, double PL2, xrl_error **error)
__CPROVER_requires(SLOT_CALLEE(error))
__CPROVER_assigns(error != NULL: *error)
__CPROVER_ensures(PROTO(error))
;

double PL3_rad_cascade_kissel(int Z, double E, double PK, double PL1, double PL2, xrl_error **error)
__CPROVER_requires(SLOT_CALLEE(error))
__CPROVER_assigns(error != NULL: *error)
__CPROVER_ensures(PROTO(error))
;

double PL3_auger_cascade_kissel(int Z, double E, double PK, double PL1, double PL2, xrl_error **error)
__CPROVER_requires(SLOT_CALLEE(error))
__CPROVER_assigns(error != NULL: *error)
__CPROVER_ensures(PROTO(error))
;

double PL3_full_cascade_kissel(int Z, double E, double PK, double PL1, double PL2, xrl_error **error)
__CPROVER_requires(SLOT_CALLEE(error))
__CPROVER_assigns(error != NULL: *error)
__CPROVER_ensures(PROTO(error))
;

double PM1_pure_kissel(int Z, double E, xrl_error **error)
__CPROVER_requires(SLOT_CALLEE(error))
__CPROVER_assigns(error != NULL: *error)
__CPROVER_ensures(PROTO(error))
;

double PM1_rad_cascade_kissel(int Z, double E, double PK, double PL1, double PL2, double PL3, xrl_error **error)
__CPROVER_requires(SLOT_CALLEE(error))
__CPROVER_assigns(error != NULL: *error)
__CPROVER_ensures(PROTO(error))
;

double PM1_auger_cascade_kissel(int Z, double E, double PK, double PL1, double PL2, double PL3, xrl_error **error)
__CPROVER_requires(SLOT_CALLEE(error))
__CPROVER_assigns(error != NULL: *error)
__CPROVER_ensures(PROTO(error))
;

double PM1_full_cascade_kissel(int Z, double E, double PK, double PL1, double PL2, double PL3, xrl_error **error)
__CPROVER_requires(SLOT_CALLEE(error))
__CPROVER_assigns(error != NULL: *error)
__CPROVER_ensures(PROTO(error))
;

double PM2_pure_kissel(int Z, double E, double PM1, xrl_error **error)
__CPROVER_requires(SLOT_CALLEE(error))
__CPROVER_assigns(error != NULL: *error)
__CPROVER_ensures(PROTO(error))
;

double PM2_rad_cascade_kissel(int Z, double E, double PK, double PL1, double PL2, double PL3, double PM1, xrl_error **error)
__CPROVER_requires(SLOT_CALLEE(error))
__CPROVER_assigns(error != NULL: *error)
__CPROVER_ensures(PROTO(error))
;

double PM2_auger_cascade_kissel(int Z, double E, double PK, double PL1, double PL2, double PL3, double PM1, xrl_error **error)
__CPROVER_requires(SLOT_CALLEE(error))
__CPROVER_assigns(error != NULL: *error)
__CPROVER_ensures(PROTO(error))
;

double PM2_full_cascade_kissel(int Z, double E, double PK, double PL1, double PL2, double PL3, double PM1, xrl_error **error)
__CPROVER_requires(SLOT_CALLEE(error))
__CPROVER_assigns(error != NULL: *error)
__CPROVER_ensures(PROTO(error))
;

double PM3_pure_kissel(int Z, double E, double PM1, double PM2, xrl_error **error)
__CPROVER_requires(SLOT_CALLEE(error))
__CPROVER_assigns(error != NULL: *error)
__CPROVER_ensures(PROTO(error))
;

double PM3_rad_cascade_kissel(int Z, double E, double PK, double PL1, double PL2, double PL3, double PM1, double PM2, xrl_error **error)
__CPROVER_requires(SLOT_CALLEE(error))
__CPROVER_assigns(error != NULL: *error)
__CPROVER_ensures(PROTO(error))
;

double PM3_auger_cascade_kissel(int Z, double E, double PK, double PL1, double PL2, double PL3, double PM1, double PM2, xrl_error **error)
__CPROVER_requires(SLOT_CALLEE(error))
__CPROVER_assigns(error != NULL: *error)
__CPROVER_ensures(PROTO(error))
;

double PM3_full_cascade_kissel(int Z, double E, double PK, double PL1, double PL2, double PL3, double PM1, double PM2, xrl_error **error)
__CPROVER_requires(SLOT_CALLEE(error))
__CPROVER_assigns(error != NULL: *error)
__CPROVER_ensures(PROTO(error))
;

double PM4_pure_kissel(int Z, double E, double PM1, double PM2, double PM3, xrl_error **error)
__CPROVER_requires(SLOT_CALLEE(error))
__CPROVER_assigns(error != NULL: *error)
__CPROVER_ensures(PROTO(error))
;

double PM4_rad_cascade_kissel(int Z, double E, double PK, double PL1, double PL2, double PL3, double PM1, double PM2, double PM3, xrl_error **error)
__CPROVER_requires(SLOT_CALLEE(error))
__CPROVER_assigns(error != NULL: *error)
__CPROVER_ensures(PROTO(error))
;

double PM4_auger_cascade_kissel(int Z, double E, double PK, double PL1, double PL2, double PL3, double PM1, double PM2, double PM3, xrl_error **error)
__CPROVER_requires(SLOT_CALLEE(error))
__CPROVER_assigns(error != NULL: *error)
__CPROVER_ensures(PROTO(error))
;

double PM4_full_cascade_kissel(int Z, double E, double PK, double PL1, double PL2, double PL3, double PM1, double PM2, double PM3, xrl_error **error)
__CPROVER_requires(SLOT_CALLEE(error))
__CPROVER_assigns(error != NULL: *error)
__CPROVER_ensures(PROTO(error))
;

double PM5_pure_kissel(int Z, double E, double PM1, double PM2, double PM3, double PM4, xrl_error **error)
__CPROVER_requires(SLOT_CALLEE(error))
__CPROVER_assigns(error != NULL: *error)
__CPROVER_ensures(PROTO(error))
;

double PM5_rad_cascade_kissel(int Z, double E, double PK, double PL1, double PL2, double PL3, double PM1, double PM2, double PM3, double PM4, xrl_error **error)
__CPROVER_requires(SLOT_CALLEE(error))
__CPROVER_assigns(error != NULL: *error)
__CPROVER_ensures(PROTO(error))
;

double PM5_auger_cascade_kissel(int Z, double E, double PK, double PL1, double PL2, double PL3, double PM1, double PM2, double PM3, double PM4, xrl_error **error)
__CPROVER_requires(SLOT_CALLEE(error))
__CPROVER_assigns(error != NULL: *error)
__CPROVER_ensures(PROTO(error))
;

double PM5_full_cascade_kissel(int Z, double E, double PK, double PL1, double PL2, double PL3, double PM1, double PM2, double PM3, double PM4, xrl_error **error)
__CPROVER_requires(SLOT_CALLEE(error))
__CPROVER_assigns(error != NULL: *error)
__CPROVER_ensures(PROTO(error))
;

double FluorYield(int Z, int shell, xrl_error **error)
__CPROVER_requires(SLOT_CALLEE(error))
__CPROVER_assigns(error != NULL: *error)
__CPROVER_ensures(PROTO(error))
;

double CS_Photo_Partial(int Z, int shell, double E, xrl_error **error)
__CPROVER_requires(SLOT_CALLEE(error))
__CPROVER_assigns(error != NULL: *error)
__CPROVER_ensures(PROTO(error))
;

void xrl_set_error_literal(xrl_error **err, xrl_error_code code, const char *message)
__CPROVER_requires(err == NULL || *err == NULL)
__CPROVER_requires(message != NULL)
__CPROVER_assigns(err != NULL: *err)
__CPROVER_ensures(err != NULL ==> (*err != NULL && __CPROVER_is_fresh(*err, sizeof(xrl_error))))
;

double CS_FluorShell_Kissel_Cascade(int Z, int shell, double E, xrl_error **error)
__CPROVER_requires(SLOT(error))
__CPROVER_assigns(error != NULL: *error)
__CPROVER_ensures(PROTO(error))
;

void h(void){ int Z, shell; double E; xrl_error **error; __CPROVER_assume(!__CPROVER_isnand(E)); CS_FluorShell_Kissel_Cascade(Z, shell, E, error); }