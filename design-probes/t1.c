#include <stdio.h>
#include <math.h>
#include <locale.h>
#include <stdlib.h>
#include "xraylib.h"
int main(){
  xrl_error *e=NULL;
  double v;
  /* L3P23 vs members */
  for (int Z=80; Z<=92; Z+=6){
    printf("Z=%d L3P23=%g  L3P2=%g L3P3=%g L3O4=%g L3O5=%g  L3O45=%g\n",Z,LineEnergy(Z,L3P23_LINE,NULL),LineEnergy(Z,L3P2_LINE,NULL),LineEnergy(Z,L3P3_LINE,NULL),LineEnergy(Z,L3O4_LINE,NULL),LineEnergy(Z,L3O5_LINE,NULL),LineEnergy(Z,L3O45_LINE,NULL));
  }
  /* atomic weight range / FF range */
  for (int Z=100; Z<=120; Z++){
    e=NULL; double aw=AtomicWeight(Z,NULL); double ff=FF_Rayl(Z,0.5,NULL); double sf=SF_Compt(Z,0.5,NULL);
    double d=DCSP_Rayl(Z,10.0,1.0,0.5,&e);
    double d2=DCS_Rayl(Z,10.0,1.0,NULL);
    if (ff!=0||aw!=0) printf("Z=%d aw=%g ff=%g sf=%g DCSP_Rayl=%g err=%s DCS_Rayl=%g CS_Photo=%g CS_Energy=%g\n",Z,aw,ff,sf,d,e?e->message:"none",d2, CS_Photo(Z,10,NULL), CS_Energy(Z,10,NULL));
    xrl_clear_error(&e);
  }
  /* Bragg angle NaN */
  Crystal_Struct *cs = Crystal_GetCrystal("Si", NULL, NULL);
  e=NULL; v=Bragg_angle(cs, 0.5, 1,1,1,&e); printf("Bragg(0.5keV)=%g err=%s\n", v, e?e->message:"none");
  /* locale */
  printf("setlocale de: %s\n", setlocale(LC_NUMERIC,"de_DE.UTF-8"));
  printf("avail locales: "); fflush(stdout); system("locale -a | tr '\\n' ' '"); printf("\n");
  /* parser on Rf */
  struct compoundData *cd = CompoundParser("Rf", &e); printf("Rf: %p err=%s\n",(void*)cd,e?e->message:"none"); if(cd) printf(" mf=%g mm=%g\n",cd->massFractions[0],cd->molarMass);
  xrl_clear_error(&e);
  cd = CompoundParser("RfO2", &e); printf("RfO2: %p err=%s\n",(void*)cd,e?e->message:"none"); if(cd) printf(" mf=%g %g mm=%g\n",cd->massFractions[0],cd->massFractions[1],cd->molarMass);
  /* ElectronConfig_Biggs negative */
  return 0;
}
