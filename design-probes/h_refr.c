#include "config.h"
#include <stdlib.h>
#include "xrayglob.h"
#include "xraylib.h"
#include "xraylib-error-private.h"
int nondet_int(void); double nondet_double(void);
double __CPROVER_uninterpreted_Fi(int, double);
int g_nerr;
static void stub_fail(xrl_error **error){ if (error) { __CPROVER_assert(*error == NULL, "no overwrite of an existing error"); *error = (xrl_error*)1; } g_nerr++; }
void xrl_set_error_literal(xrl_error **err, xrl_error_code code, const char *message){ stub_fail(err); }
double Fi(int Z, double E, xrl_error **error){ double v = __CPROVER_uninterpreted_Fi(Z,E); __CPROVER_assume(!__CPROVER_isnand(v)); if (v == 0.0) stub_fail(error); return v; }
double AtomicWeight(int Z, xrl_error **error){ if (Z<1||Z>ZMAX||!(AtomicWeight_arr[Z] > 0.0)) { stub_fail(error); return 0.0;} return AtomicWeight_arr[Z]; }
/* assumed contract of the parser (proved separately): NULL, or a fresh well-formed composition */
#define NMAX 3
struct compoundData *CompoundParser(const char s[], xrl_error **error){
  if (nondet_int()) return NULL;
  struct compoundData *cd = malloc(sizeof *cd); __CPROVER_assume(cd);
  int n = nondet_int(); __CPROVER_assume(n>=1 && n<=NMAX);
  cd->nElements = n; cd->Elements = malloc(sizeof(int)*n); cd->massFractions = malloc(sizeof(double)*n); cd->nAtoms = malloc(sizeof(double)*n);
  __CPROVER_assume(cd->Elements && cd->massFractions && cd->nAtoms);
  return cd;
}
struct compoundDataNIST *GetCompoundDataNISTByName(const char s[], xrl_error **error){ return NULL; }
void FreeCompoundData(struct compoundData *cd){ free(cd->Elements); free(cd->massFractions); free(cd->nAtoms); free(cd); }
void FreeCompoundDataNIST(struct compoundDataNIST *c){ }
void h_refr(void){
  double E = nondet_double(), rho = nondet_double(); xrl_error *e = NULL; g_nerr=0;
  __CPROVER_assume(!__CPROVER_isnand(E) && !__CPROVER_isnand(rho));
  double r = Refractive_Index_Re("x", E, rho, &e);
}
