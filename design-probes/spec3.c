#include "config.h"
#include "xrayglob.h"
#include "xraylib.h"
#include "xraylib-error-private.h"

/* assumed contract of the error setter: slot must be empty (=> no overwrite), one fresh error stored */
void xrl_set_error_literal(xrl_error **err, xrl_error_code code, const char *message)
__CPROVER_requires(err == NULL || *err == NULL)
__CPROVER_requires(message != NULL)
__CPROVER_assigns(err != NULL: *err)
__CPROVER_ensures(err != NULL ==> (*err != NULL && __CPROVER_is_fresh(*err, sizeof(xrl_error)) && (*err)->code == code))
;

double ElectronConfig_Biggs(int Z, int shell, xrl_error **error)
__CPROVER_requires(error == NULL || (__CPROVER_is_fresh(error, sizeof(*error)) && *error == NULL))
/* table shape invariant, instantiated at the queried Z */
__CPROVER_requires((Z >= 1 && Z <= ZMAX && NShells_ComptonProfiles[Z] > 0) ==>
      (NShells_ComptonProfiles[Z] <= SHELLNUM_C && __CPROVER_is_fresh(UOCCUP_ComptonProfiles[Z], sizeof(double) * NShells_ComptonProfiles[Z])))
__CPROVER_assigns(error != NULL: *error)
__CPROVER_ensures(__CPROVER_return_value != 0.0 ==> (error == NULL || *error == NULL))
__CPROVER_ensures(__CPROVER_return_value == 0.0 ==> (error == NULL || *error != NULL))
__CPROVER_ensures((Z >= 1 && Z <= ZMAX && shell >= 0 && shell < NShells_ComptonProfiles[Z] && UOCCUP_ComptonProfiles[Z][shell] > 0.0)
      ==> __CPROVER_return_value == UOCCUP_ComptonProfiles[Z][shell])
;
void h(void){ int Z, shell; xrl_error **error; ElectronConfig_Biggs(Z, shell, error); }
