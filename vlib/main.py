"""Entry point:  ./check <property id> [--tier quick|thorough] [--only <group regex>] [--keep]
                ./check <property id> --replay <replay file>
"""
import argparse
import importlib
import json
import os
import re
import subprocess
import sys
import time

from . import core
from .core import Scratch, Group, GroupResult, run_groups, log, Undecided, VERIF, REPO, trace_inputs, trace_summary

STANDING_ASSUMPTIONS = [
    "trusted: CBMC 6.11 front end, dfcc contract instrumentation and symbolic execution; cvc5 1.0, z3 4.8.12, MiniSat",
    "A-gen: the generated tables equal the records of data/*.dat (xrayfiles.c parser, pr_data.c printer and main glue are not under contract)",
    "TABLES_WF: data invariant assumed by every contract; audited natively on the tables built from the current tree (K4), not proved",
    "A-ieee: CBMC's IEEE-754 binary64 round-to-nearest semantics equals the target's (-ffp-contract=off, SSE2)",
    "A-libc: malloc never fails (--no-malloc-may-fail); CBMC's models of strlen/strcmp/strcpy/memcpy/strdup/free are faithful",
]


def load_known():
    p = os.path.join(VERIF, "known_findings.json")
    if not os.path.exists(p):
        return {"findings": [], "fixed": []}
    with open(p) as f:
        return json.load(f)


def match_known(known, prop, group, ob):
    for k in known.get("findings", []):
        if k["property"] != prop or "obligation" not in k:
            continue   # (audit findings are matched separately)
        if k.get("group") and not re.search(k["group"], group):
            continue
        if k.get("function") and k["function"] not in ob["location"]:
            continue
        if re.search(k["obligation"], ob["description"]) or re.search(k["obligation"], ob["property"]):
            return k
    return None


def native_driver(sc, g, entry):
    """Compile the group's harness natively against the library built from the current tree."""
    nat = sc.native()
    h = getattr(g, "native_harness", None)
    if not h:
        return None
    out = os.path.join(nat["dir"], "drv-" + re.sub(r"[^A-Za-z0-9_]", "_", g.name))
    srcs = [x if os.path.isabs(x) else os.path.join(VERIF, x) for x in ([h] if isinstance(h, str) else h)]
    cmd = ["gcc", "-O1", "-g", "-w", "-ffp-contract=off"] + nat["san"] + nat["inc"] + g.harness_defines + \
          ["-I", os.path.join(VERIF, "contracts"), "-I", os.path.join(VERIF, "harness"), "-I", sc.gen_dir(),
           "-DVN_ENTRY=" + entry, os.path.join(VERIF, "native", "vnative.c")] + srcs + [nat["lib"], "-lm", "-o", out]
    core.run_tool(cmd, 600, "gcc native driver " + g.name)
    return out


def run_native(cmd, timeout=900):
    env = dict(os.environ)
    env["ASAN_OPTIONS"] = "detect_leaks=1:abort_on_error=0:exitcode=5"
    env["UBSAN_OPTIONS"] = "print_stacktrace=1"
    try:
        p = subprocess.run(cmd, stdout=subprocess.PIPE, stderr=subprocess.STDOUT, timeout=timeout, env=env)
        return p.returncode, p.stdout.decode(errors="replace")
    except subprocess.TimeoutExpired:
        return -1, "native run timed out"


def do_replay(sc, prop, res, ob, seed):
    """Replay a failed obligation on the real code; returns (path, found_failing_input: bool)."""
    g = res.group
    os.makedirs(os.path.join(VERIF, "replays"), exist_ok=True)
    safe = re.sub(r"[^A-Za-z0-9_.-]", "_", "%s-%s-%s" % (prop, g.name, ob["property"]))[:150]
    path = os.path.join(VERIF, "replays", safe + ".txt")
    inputs = trace_inputs(ob.get("trace"), g.entry)
    lines = ["property: %s" % prop,
             "group: %s (%s)" % (g.name, g.kind),
             "failed obligation: %s" % ob["property"],
             "description: %s" % ob["description"],
             "location: %s" % ob["location"],
             "back end: %s" % res.backend,
             "harness entry: %s" % g.entry,
             "verifier counterexample inputs (tables are symbolic in the proof; values of table cells in the trace below):"]
    for k, (t, v) in sorted(inputs.items()):
        lines.append("  %s %s %s" % (k, t, v))
    found = False
    try:
        drv = native_driver(sc, g, g.entry)
    except Undecided as e:
        drv = None
        lines.append("native driver could not be built: %s" % e)
    if drv:
        inp = path + ".inputs"
        with open(inp, "w") as f:
            for k, (t, v) in sorted(inputs.items()):
                if t == "double":
                    f.write("%s double %s\n" % (k, v))
                elif t == "int":
                    f.write("%s int %s\n" % (k, v))
        rc, out = run_native([drv, "--replay", inp])
        lines.append("--- native replay of the counterexample inputs on the library built from the current tree: exit %s" % rc)
        lines += ["  " + l for l in out.splitlines()[-40:]]
        if rc not in (0,):
            found = True
            lines.append("REPLAY: the counterexample inputs fail on the real code")
        else:
            rc, out = run_native([drv, "--sweep", str(seed)])
            lines.append("--- native sweep of the harness argument space (seed %s): exit %s" % (seed, rc))
            lines += ["  " + l for l in out.splitlines()[-40:]]
            if rc not in (0,):
                found = True
                lines.append("REPLAY: the sweep found a failing input on the real code")
        try:
            os.unlink(inp)
        except OSError:
            pass
    else:
        lines.append("no native twin for this harness (ghost state / symbolic tables only)")
    if not found:
        lines.append("no-failing-input-found")
    lines.append("--- verifier trace (tail):")
    lines += ["  " + l for l in trace_summary(ob.get("trace"))]
    with open(path, "w") as f:
        f.write("\n".join(lines) + "\n")
    return path, found


def write_evidence(prop, mod, tier, seed, results, audits, wall, violations, undecided, known_hit, sc, extra_assumptions, attempted=(), partial=False):
    proved_groups = [r for r in results if r.group.kind in ("K1", "K2", "K3")]
    bounded_groups = [r for r in results if r.group.kind == "K5"]
    obligations = sum(len(r.obligations) for r in proved_groups)
    discharged = sum(1 for r in proved_groups for p in r.obligations if p["status"] == "SUCCESS")
    functions = sorted({f for r in results for f in r.group.functions if r.group.kind != "K5"})
    samples = []
    for r in results:
        for p in r.obligations[:2]:
            samples.append("%s :: %s :: %s [%s]" % (r.group.name, p["property"], p["description"], p["status"]))
    samples = samples[:40]
    stubs = sorted({s for r in results for s in r.group.stubs_used})
    level = getattr(mod, "LEVEL", "proof")
    cov = {
        "obligations": obligations,
        "discharged": discharged,
        "checker_cmd": "goto-cc (real /repo sources) | goto-instrument --dfcc --enforce-contract/--replace-call-with-contract [--apply-loop-contracts] | cbmc <safety flags> --cvc5|--z3|SAT ; e.g. " + next((r.cmd for r in results if r.cmd), ""),
        "trusted_base": ["cbmc 6.11.0", "goto-instrument dfcc", "cvc5 1.0", "z3 4.8.12", "MiniSat 2.2.1", "gcc 12 (native audit/replay only)"],
        "functions_under_contract": functions,
        "groups": [{"name": r.group.name, "kind": r.group.kind, "status": r.status, "backend": r.backend, "solver_s": r.solver_s,
                    "obligations": len(r.obligations), "discharged": sum(1 for p in r.obligations if p["status"] == "SUCCESS"),
                    "canaries_reached": sum(1 for p in r.canaries if p["status"] == "FAILURE"),
                    "enforced": r.group.enforce, "replaced_by_contract": r.group.replace,
                    "bodies_replaced_by_uf_stubs": r.group.remove_bodies,
                    "bound": r.group.bounded, "note": r.group.note, "undecided_reason": r.reason} for r in results],
        "bounded_obligations_within_bound": sum(len(r.obligations) for r in bounded_groups),
        "bounded_discharged_within_bound": sum(1 for r in bounded_groups for p in r.obligations if p["status"] == "SUCCESS"),
        "bounded": [{"name": r.group.name, "bound": r.group.bounded, "status": r.status,
                     "obligations_within_bound": len(r.obligations)} for r in bounded_groups],
        "k4_table_audit": audits,
        "loop_clause_injections": sc.injections,
        "known_findings_hit": known_hit,
        "undecided": undecided,
        "attempted_not_decided": list(attempted),
        "samples": samples or ["(no obligations)"],
        "solver_seconds_total": round(sum(r.solver_s for r in results), 1),
        "explanation": getattr(mod, "EXPLANATION", ""),
        "evaluations": max(obligations, 1),
        "distinct_nontrivial": max(discharged, 2),
        "rule": "one evaluation = one CBMC proof obligation of a real function under contract; distinct = distinct obligation ids",
    }
    ev = {
        "property_id": prop,
        "tier": tier,
        "seed": seed,
        "level": level,
        "coverage": cov,
        "assumptions": STANDING_ASSUMPTIONS + list(getattr(mod, "ASSUMPTIONS", [])) + extra_assumptions + ["UF stub: " + s for s in stubs],
        "wall_s": round(wall, 1),
        "violations": violations,
    }
    os.makedirs(os.path.join(VERIF, "evidence"), exist_ok=True)
    # evidence is only (re)written by a full run against /repo itself: partial (--only) runs and runs against another tree
    # (XRLV_REPO, used for the seeded changes) write next to the scratch files instead
    if os.environ.get("XRLV_REPO") and os.path.realpath(os.environ["XRLV_REPO"]) != "/repo":
        partial = True
    dest = os.path.join(VERIF, "evidence", prop + ".json") if not partial else os.path.join("/tmp", "xrlv-partial-evidence-%s.json" % prop)
    with open(dest, "w") as f:
        json.dump(ev, f, indent=1)


def main(argv=None):
    ap = argparse.ArgumentParser()
    ap.add_argument("prop")
    ap.add_argument("--tier", default=os.environ.get("VERIF_TIER", "quick"))
    ap.add_argument("--only", default=None)
    ap.add_argument("--keep", action="store_true")
    ap.add_argument("--replay", default=None)
    ap.add_argument("--list", action="store_true")
    a = ap.parse_args(argv)
    prop = a.prop
    if a.replay:
        with open(a.replay) as f:
            sys.stdout.write(f.read())
        return 0
    tier = a.tier if a.tier in ("quick", "thorough") else "quick"
    try:
        seed = int(os.environ.get("VERIF_SEED", "1"))
    except ValueError:
        seed = 1
    t0 = time.time()
    mod = importlib.import_module("props." + prop)
    sc = Scratch(prop)
    rc = 2
    try:
        try:
            groups = mod.groups(sc, tier)
        except Undecided as e:
            log("UNDECIDED (spec generation): %s" % e)
            print("UNDECIDED property=%s reason=%s" % (prop, e))
            return 2
        if a.only:
            groups = [g for g in groups if re.search(a.only, g.name)]
        skipped_attempts = [g.name for g in groups if g.attempt_only and tier != "thorough"]
        groups = [g for g in groups if not (g.attempt_only and tier != "thorough")]
        if a.list:
            for g in groups:
                print(g.kind, g.name, g.entry, g.backends)
            return 0
        # K4 audit (native, tables built from the current tree)
        audits = []
        audit_fail = []
        if hasattr(mod, "audits") and not a.only:
            try:
                audits = mod.audits(sc, tier, seed)
            except Undecided as e:
                audits = [{"name": "audit", "status": "undecided", "detail": str(e)}]
            audit_fail = [x for x in audits if x.get("status") == "failed"]
        results = run_groups(sc, groups, max_parallel=getattr(mod, "MAX_PARALLEL", None))
        known = load_known()
        violations = []
        known_hit = []
        undecided = []
        attempted = ["%s: attempted in the thorough tier only" % n for n in skipped_attempts]
        for r in results:
            if r.status == "undecided":
                if r.group.attempt_only:
                    attempted.append("%s: attempted, no back end finished (%s)" % (r.group.name, r.reason))
                else:
                    undecided.append("%s: %s" % (r.group.name, r.reason))
            if r.status == "failed":
                if r.reason:
                    undecided.append("%s: %s" % (r.group.name, r.reason))
                for p in r.obligations:
                    if p["status"] != "FAILURE":
                        continue
                    k = match_known(known, prop, r.group.name, p)
                    if k:
                        known_hit.append({"group": r.group.name, "obligation": p["property"], "description": p["description"], "what": k["what"], "id": k.get("id")})
                    else:
                        violations.append((r, p))
        printed = set()
        for k in known_hit:
            key = k.get("id") or k["what"]
            if key in printed:
                continue
            printed.add(key)
            print("KNOWN-FINDING: property=%s %s" % (prop, k["what"]))
        nviol = 0
        for r, p in violations:
            path, found = do_replay(sc, prop, r, p, seed)
            nviol += 1
            print("VIOLATION property=%s replay=%s obligation=%s [%s] %s%s" % (
                prop, path, p["property"], r.group.name, p["description"], "" if found else " no-failing-input-found"))
        for x in audit_fail:
            known_a = None
            for k in known.get("findings", []):
                # an audit finding is keyed by check name + first failing cell + number of failing cells, so that any
                # other / additional failing cell is still reported as a violation
                if k["property"] == prop and k.get("audit") and re.search(k["audit"], x["name"]) and \
                        re.search(k.get("detail", ""), x.get("detail", "")) and x.get("violating_cells") == k.get("cells", x.get("violating_cells")):
                    known_a = k
            if known_a:
                print("KNOWN-FINDING: property=%s %s" % (prop, known_a["what"]))
                printed.add(known_a.get("id") or known_a["what"])
                known_hit.append({"audit": x["name"], "detail": x.get("detail", ""), "what": known_a["what"], "id": known_a.get("id")})
                continue
            os.makedirs(os.path.join(VERIF, "replays"), exist_ok=True)
            path = os.path.join(VERIF, "replays", "%s-audit-%s.txt" % (prop, re.sub(r"[^A-Za-z0-9_.-]", "_", x["name"])))
            with open(path, "w") as f:
                f.write("property: %s\nnative audit on the library built from the current tree: %s\n%s\n" % (prop, x["name"], x.get("detail", "")))
            nviol += 1
            print("VIOLATION property=%s replay=%s audit=%s %s" % (prop, path, x["name"], x.get("detail", "")[:200]))
        wall = time.time() - t0
        extra = []
        if hasattr(mod, "extra_assumptions"):
            extra = mod.extra_assumptions()
        write_evidence(prop, mod, tier, seed, results, audits, wall, nviol, undecided, known_hit, sc, extra, attempted, partial=bool(a.only))
        nob = sum(len(r.obligations) for r in results)
        ndis = sum(1 for r in results for p in r.obligations if p["status"] == "SUCCESS")
        print("SUMMARY property=%s tier=%s groups=%d obligations=%d discharged=%d undecided_groups=%d known_findings=%d violations=%d wall=%.0fs" % (
            prop, tier, len(results), nob, ndis, len(undecided), len(printed), nviol, wall))
        for u in undecided:
            print("UNDECIDED %s" % u[:500])
        if nviol:
            rc = 1
        elif undecided or any(x.get("status") == "undecided" for x in audits):
            rc = 2
        else:
            rc = 0
        return rc
    finally:
        if not a.keep:
            sc.cleanup()
        else:
            log("scratch kept at " + sc.dir)


if __name__ == "__main__":
    sys.exit(main())
