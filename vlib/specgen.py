"""Mechanical generators: everything here is derived from the text of /repo's headers on every run.

* prototypes of the value functions  -> UF leaf macros + stub bodies (DESIGN 3.3)
* macro families (lines, shells, transitions, Auger) -> name/value tables used by the
  name-derived specifications (C01 name chain, C08 cascade sums, C09/C10 members, C11 CK rule)
"""
import os
import re

from .core import Undecided

C_COMMENT = re.compile(r"/\*.*?\*/", re.S)


def read(path):
    with open(path) as f:
        return f.read()


def parse_defines(path, pattern):
    """#define NAME <int or other macro or -macro> ; returns ordered list of (name, value:int)."""
    txt = C_COMMENT.sub("", read(path))
    raw = {}
    order = []
    for m in re.finditer(r"^[ \t]*#define[ \t]+([A-Za-z_][A-Za-z_0-9]*)[ \t]+(-?[A-Za-z_0-9]+)[ \t]*$", txt, re.M):
        raw[m.group(1)] = m.group(2)
        order.append(m.group(1))

    def val(n, depth=0):
        v = raw[n]
        if re.match(r"^-?\d+$", v):
            return int(v)
        if depth > 10:
            raise Undecided("macro cycle " + n)
        neg = v.startswith("-")
        b = v[1:] if neg else v
        if b not in raw:
            raise KeyError(b)
        x = val(b, depth + 1)
        return -x if neg else x
    out = []
    for n in order:
        if re.match(pattern, n):
            try:
                out.append((n, val(n)))
            except KeyError:
                pass
    return out


class Macros:
    def __init__(self, inc):
        self.lines_all = parse_defines(os.path.join(inc, "xraylib-lines.h"), r".*_LINE$")
        self.shells = parse_defines(os.path.join(inc, "xraylib-shells.h"), r".*_SHELL$")
        self.trans = parse_defines(os.path.join(inc, "xraylib-defs.h"), r"^F[A-Z0-9]+_TRANS$")
        if not self.trans:
            self.trans = parse_defines(os.path.join(inc, "xraylib.h"), r"^F[A-Z0-9]+_TRANS$")
        self.auger = parse_defines(os.path.join(inc, "xraylib-auger.h"), r".*_AUGER$")
        if len(self.lines_all) < 300 or len(self.shells) < 28 or len(self.trans) < 10 or len(self.auger) < 900:
            raise Undecided("macro families not found in headers (%d lines, %d shells, %d trans, %d auger)" %
                            (len(self.lines_all), len(self.shells), len(self.trans), len(self.auger)))
        self.line = dict(self.lines_all)
        self.shell = dict(self.shells)
        self.tr = dict(self.trans)
        self.aug = dict(self.auger)
        # IUPAC single lines: <shell><shell>_LINE with negative value
        self.shell_names = [n[:-6] for n, _ in self.shells]

    def iupac_lines(self):
        """(name, value, from_shell, to_shell) for IUPAC names that are single transitions."""
        out = []
        names = sorted(self.shell_names, key=len, reverse=True)
        for n, v in self.lines_all:
            b = n[:-5]
            for s in names:
                if b.startswith(s) and b[len(s):] in self.shell:
                    pass
            m = None
            for s in names:
                if b.startswith(s) and (b[len(s):] + "_SHELL") in self.shell:
                    m = (s, b[len(s):])
                    break
            if m and v < 0:
                out.append((n, v, m[0], m[1]))
        return out


PROTO_RE = re.compile(r"XRL_EXTERN\s+double\s+([A-Za-z_0-9]+)\s*\(([^)]*)\)\s*;")
PROTO2_RE = re.compile(r"^\s*double\s+([A-Za-z_0-9]+)\s*\(([^)]*)\)\s*;", re.M)


def parse_prototypes(inc, src):
    """name -> list of (ctype, argname) (error parameter removed) for double-valued scalar functions."""
    protos = {}
    for path, rx in ((os.path.join(inc, "xraylib.h"), PROTO_RE),
                     (os.path.join(inc, "xraylib-auger.h"), PROTO_RE),
                     (os.path.join(src, "xrf_cross_sections_aux.h"), PROTO2_RE),
                     (os.path.join(src, "xrf_cross_sections_aux-private.h"), PROTO2_RE)):
        if not os.path.exists(path):
            continue
        txt = C_COMMENT.sub("", read(path))
        for m in rx.finditer(txt):
            name, args = m.group(1), m.group(2)
            al = []
            ok = True
            haserr = False
            for a in [x.strip() for x in args.split(",") if x.strip()]:
                if "xrl_error" in a:
                    haserr = True
                    continue
                mm = re.match(r"^(int|double)\s+([A-Za-z_0-9]+)$", a)
                if not mm:
                    ok = False
                    break
                al.append((mm.group(1), mm.group(2)))
            if ok:
                protos[name] = (al, haserr)
    if len(protos) < 60:
        raise Undecided("prototype parser found only %d functions" % len(protos))
    return protos


# value facts assumed of a leaf *when it succeeds* (justified by its own K1 contract / TABLES_WF / A-libm /
# A-underflow; every string below is copied into the evidence file's assumption list)
POSITIVE = "v > 0.0 && !__CPROVER_isinfd(v)"            # strictly positive physical quantity
UNIT = "v > 0.0 && v <= 1.0"                             # yields, rates, probabilities
NUMBER = "!__CPROVER_isnand(v) && !__CPROVER_isinfd(v)"  # may be 0 or negative (Fi, Fii, FF, SF)

LEAF_FACTS = {
    "Fi": NUMBER, "Fii": NUMBER, "FF_Rayl": NUMBER, "SF_Compt": NUMBER, "MomentTransf": NUMBER,
    "FluorYield": UNIT, "RadRate": UNIT, "CosKronTransProb": UNIT, "AugerRate": UNIT, "AugerYield": UNIT,
    "JumpFactor": "v > 1.0 && !__CPROVER_isinfd(v)" if False else POSITIVE,
}


# protocol facts (when does the function fail) of closed-form functions, proved of the real bodies by their K1
# contracts (C03); expressed over the parameter names of the prototypes in xraylib.h
OK_FACTS = {
    "DCS_Thoms": "ok", "DCSP_Thoms": "ok",
    "DCS_KN": "ok == (E > 0.0)", "DCSP_KN": "ok == (E > 0.0)", "MomentTransf": "ok == (E > 0.0)",
    "CS_KN": "ok == (E > 0.0)", "ComptonEnergy": "ok == (E0 > 0.0)",
}


def leaf_fact(name):
    return LEAF_FACTS.get(name, POSITIVE)


def gen_leaves(sc, protos):
    """gen/leaves.h : LEAF_f / LEAFOK_f for every parsed value function."""
    d = sc.gen_dir()
    lines = ["/* generated from the prototypes in include/xraylib.h, xraylib-auger.h, src/xrf_cross_sections_aux*.h */",
             "#ifndef LEAVES_H", "#define LEAVES_H", '#include "vcommon.h"',
             "#define V_CONCRETE(k) ((1 + ((((k) % 7) + 7) % 7)) * 0.125)",
             '#include "xrf_cross_sections_aux.h"', '#include "xrf_cross_sections_aux-private.h"']
    for name, (al, haserr) in sorted(protos.items()):
        types = ", ".join(t for t, _ in al) or "void"
        params = ", ".join(chr(97 + i) for i in range(len(al)))
        # refutation acceleration (DESIGN 3.6): every leaf becomes a *concrete* function of its integer macro arguments
        # (exact multiples of 1/8 in (0,1]; Z and the continuous arguments are ignored), so that both sides of an identity
        # constant-fold and a changed identity is refuted without any float search.  A model found under an extra
        # constraint is still a model of the original obligation; only FAILURE answers of such a run are used.
        kexpr = " + ".join("%d * (%s)" % (w, chr(97 + i)) for (i, (t, an)), w in zip(enumerate(al), (3, 5, 7, 11, 13, 17, 19, 23, 29, 31, 37, 41))
                          if t == "int" and an != "Z") or "0"
        # second refutation variant (V_RESTRICT_OK): the outcome of every leaf stays symbolic (a failing leaf returns 0), only the
        # value of a successful one is concrete - reaches changes that only show on an error path of a callee
        conc = "V_CONCRETE(%s)" % kexpr
        if name == "JumpFactor":
            conc = "(1.0 + %s)" % conc     # physical jump ratios exceed 1: keeps the jump shares (J-1)/J positive in the restricted runs
        lines.append("#if defined(VERIF_CBMC) && defined(V_RESTRICT_LEAVES) && defined(V_RESTRICT_OK)")
        lines.append("_Bool __CPROVER_uninterpreted_ok_%s(%s);" % (name, types))
        lines.append("#define LEAFOK_%s(%s) __CPROVER_uninterpreted_ok_%s(%s)" % (name, params, name, params))
        lines.append("#define LEAF_%s(%s) (LEAFOK_%s(%s) ? %s : 0.0)" % (name, params, name, params, conc))
        lines.append("#elif defined(VERIF_CBMC) && defined(V_RESTRICT_LEAVES)")
        lines.append("#define LEAF_%s(%s) %s" % (name, params, conc))
        lines.append("#define LEAFOK_%s(%s) 1" % (name, params))
        lines.append("#elif defined(VERIF_CBMC)")
        lines.append("double __CPROVER_uninterpreted_v_%s(%s);" % (name, types))
        lines.append("_Bool __CPROVER_uninterpreted_ok_%s(%s);" % (name, types))
        lines.append("#define LEAF_%s(%s) __CPROVER_uninterpreted_v_%s(%s)" % (name, params, name, params))
        lines.append("#define LEAFOK_%s(%s) __CPROVER_uninterpreted_ok_%s(%s)" % (name, params, name, params))
        lines.append("#else")
        if haserr:
            call = "%s(%s)" % (name, ", ".join([p for p in params.split(", ") if p] + ["NULL"]))
            callok = "%s(%s)" % (name, ", ".join([p for p in params.split(", ") if p] + ["&e_"]))
            lines.append("#define LEAF_%s(%s) %s" % (name, params, call))
            lines.append("#define LEAFOK_%s(%s) ({ xrl_error *e_ = NULL; (void)%s; int ok_ = (e_ == NULL); xrl_clear_error(&e_); ok_; })" % (name, params, callok))
        else:
            lines.append("#define LEAF_%s(%s) %s(%s)" % (name, params, name, params))
            lines.append("#define LEAFOK_%s(%s) (%s(%s) != 0.0)" % (name, params, name, params))
        lines.append("#endif")
    lines.append("#endif")
    with open(os.path.join(d, "leaves.h"), "w") as f:
        f.write("\n".join(lines) + "\n")


def gen_stubs(sc, protos, names, tag, facts_override=None, with_setter=True):
    """gen/stubs_<tag>.c : UF stub bodies for the named callees + the ghost error setter."""
    d = sc.gen_dir()
    out = ['/* generated UF stubs (DESIGN 3.3): protocol of the K1 contract + determinism, nothing else */',
           '#include "leaves.h"', '#include "vstub.h"']
    used = []
    for name in names:
        if name not in protos:
            raise Undecided("stub requested for unknown function " + name)
        al, haserr = protos[name]
        sig = ", ".join("%s %s" % (t, n) for t, n in al)
        args = ", ".join(n for _, n in al)
        fact = (facts_override or {}).get(name, leaf_fact(name))
        if haserr:
            out.append("double %s(%s%sxrl_error **error) {" % (name, sig, ", " if sig else ""))
            out.append("#ifdef V_RESTRICT_LEAVES")
            out.append("  _Bool ok = LEAFOK_%s(%s); double v = LEAF_%s(%s);" % (name, args, name, args))
            out.append("#else")
            out.append("  _Bool ok = __CPROVER_uninterpreted_ok_%s(%s);" % (name, args))
            out.append("  double v = __CPROVER_uninterpreted_v_%s(%s);" % (name, args))
            out.append("#endif")
            # the value is returned on both outcomes (a failing call returns the 0 sentinel): no if-then-else is
            # wrapped around the UF leaf, so arithmetic over leaves stays syntactically identical in code and spec
            out.append("  __CPROVER_assume(ok ? (%s) : (v == 0.0));" % fact)
            if name in OK_FACTS:
                out.append("  __CPROVER_assume(%s);" % OK_FACTS[name])
            out.append("  if (!ok) stub_fail(error);")
            out.append("  return v;")
            out.append("}")
        else:
            # internal helpers without an error parameter (PK_*, PL1_* ...): 0 means "no vacancies", any value >= 0
            out.append("double %s(%s) {" % (name, sig))
            out.append("#ifdef V_RESTRICT_LEAVES")
            out.append("  double v = LEAF_%s(%s);" % (name, args))
            out.append("#else")
            out.append("  double v = __CPROVER_uninterpreted_v_%s(%s);" % (name, args))
            out.append("#endif")
            out.append("  __CPROVER_assume(v >= 0.0 && !__CPROVER_isinfd(v));")
            out.append("  return v;")
            out.append("}")
        used.append("%s: assumed when ok: %s%s" % (name, fact if haserr else "v >= 0 finite",
                                                 ("; protocol: " + OK_FACTS[name]) if name in OK_FACTS else ""))
    if with_setter:
        out.append("void xrl_set_error_literal(xrl_error **err, xrl_error_code code, const char *message) {")
        out.append("  __CPROVER_assert(message != NULL && message[0] != 0, \"error message is non-empty\");")
        out.append("  stub_set(err, code);")
        out.append("}")
    path = os.path.join(d, "stubs_%s.c" % tag)
    with open(path, "w") as f:
        f.write("\n".join(out) + "\n")
    return path, used


# --------------------------------------------------------------------------- line groups (C10, C09, C08)

def siegbahn_aliases(inc):
    """Siegbahn alias macros of include/xraylib.h: name -> IUPAC target name."""
    txt = C_COMMENT.sub("", read(os.path.join(inc, "xraylib.h")))
    out = []
    for m in re.finditer(r"^[ \t]*#define[ \t]+([A-Z][A-Z0-9]*_LINE)[ \t]+([A-Z0-9]+_LINE)[ \t]*$", txt, re.M):
        out.append((m.group(1), m.group(2)))
    return out


def gen_line_spec(sc, mac):
    """gen/spec_lines.h: group membership derived from the *names* of the line macros.

      K-alpha members : ^KL<n>_LINE
      K-beta  members : ^K[MNOP]<n>?_LINE in header order, KP5 excluded (TABLES_WF: its rate is 0; audited)
      L-alpha members : the LA<n> Siegbahn aliases
      doublets        : <shell><letter><d1><d2>_LINE -> <shell><letter><d1>, <shell><letter><d2>
      L-beta members  : the LB<n> Siegbahn aliases + L3N6, L3N7 (the library's published L-beta set), each with
                        the shell named by the first component of its IUPAC name
    """
    d = sc.gen_dir()
    names = [n for n, _ in mac.lines_all]
    ka = [n for n in names if re.match(r"^KL\d_LINE$", n)]
    kb = [n for n in names if re.match(r"^K[MNOP]\d?_LINE$", n) and n != "KP5_LINE"]
    doublets = []
    for n in names:
        m = re.match(r"^([KLMNOP]\d?)([LMNOPQ])(\d)(\d)_LINE$", n)
        if m:
            a = "%s%s%s_LINE" % (m.group(1), m.group(2), m.group(3))
            b = "%s%s%s_LINE" % (m.group(1), m.group(2), m.group(4))
            if a in mac.line and b in mac.line:
                doublets.append((n, a, b))
    ali = siegbahn_aliases(sc.inc)
    la = [t for a, t in ali if re.match(r"^LA\d+_LINE$", a)]
    lb = [(a, t) for a, t in ali if re.match(r"^LB\d+_LINE$", a)]
    lbm = [(a, t) for a, t in lb] + [("L3N6_LINE", "L3N6_LINE"), ("L3N7_LINE", "L3N7_LINE")]
    if len(ka) != 3 or len(kb) < 20 or len(doublets) != 7 or len(la) != 2 or len(lb) != 11:
        raise Undecided("line-group derivation from names failed: ka=%d kb=%d doublets=%d la=%d lb=%d" %
                        (len(ka), len(kb), len(doublets), len(la), len(lb)))
    out = ["/* generated from the macro names of include/xraylib-lines.h and the Siegbahn aliases of include/xraylib.h */",
           "#ifndef SPEC_LINES_H", "#define SPEC_LINES_H",
           "#define SPEC_SLOT(line) ((line) < 0 ? -((line) + 1) : -1)   /* overflow-free for every int */",
           "#define SPEC_NLINES %d" % len([1 for n, v in mac.lines_all if v < 0]),
           "#define SPEC_LINE_MIN %d" % min(v for _, v in mac.lines_all),
           "static const int SPEC_KA[%d] = {%s};" % (len(ka), ", ".join(ka)),
           "#define SPEC_NKA %d" % len(ka),
           "static const int SPEC_KB[%d] = {%s};" % (len(kb), ", ".join(kb)),
           "#define SPEC_NKB %d" % len(kb),
           "static const int SPEC_LA[2] = {%s};" % ", ".join(la),
           "#define SPEC_NDOUBLETS %d" % len(doublets),
           "static const struct { int line, m1, m2; } SPEC_DOUBLET[%d] = {%s};" % (
               len(doublets), ", ".join("{%s, %s, %s}" % t for t in doublets)),
           "#define SPEC_NLB %d" % len(lbm)]
    rows = []
    for a, t in lbm:
        m = re.match(r"^(L\d)", t)
        if not m:
            raise Undecided("L-beta member %s is not an L line" % t)
        rows.append("{%s, %s_SHELL}" % (a, m.group(1)))
    out.append("static const struct { int line, shell; } SPEC_LB[%d] = {%s};" % (len(rows), ", ".join(rows)))
    out.append("#endif")
    with open(os.path.join(d, "spec_lines.h"), "w") as f:
        f.write("\n".join(out) + "\n")
    # line slot -> index of the shell the transition starts from (name prefix), -1 for shells other than K, L1..L3
    shell_of = []
    byslot = sorted([(v, n) for n, v in mac.lines_all if v < 0], reverse=True)   # slot 0 = value -1
    for v, n in byslot:
        m = re.match(r"^(K|L1|L2|L3)", n)
        shell_of.append(m.group(1) + "_SHELL" if m else "-1")
    if [v for v, _ in byslot] != list(range(-1, -len(byslot) - 1, -1)):
        raise Undecided("line macro values are not the contiguous range -1..-%d" % len(byslot))
    # the lines of each of K, L1, L2, L3 occupy one contiguous block of macro values (checked here): emit the blocks
    ranges = {}
    for cls in ("K", "L1", "L2", "L3"):
        vals = sorted(v for v, n in byslot if re.match(r"^%s(?![0-9])" % cls, n))
        if not vals or vals != list(range(vals[0], vals[-1] + 1)):
            raise Undecided("lines of shell %s do not form one contiguous block of macro values" % cls)
        ranges[cls] = (vals[0], vals[-1])
    rng_txt = "".join("#define SPEC_%s_LINES_LO %d\n#define SPEC_%s_LINES_HI %d\n" % (c, ranges[c][0], c, ranges[c][1]) for c in ranges)
    with open(os.path.join(d, "spec_lineshell.h"), "w") as f:
        f.write(rng_txt)
        f.write("/* generated: shell named by the first component of each IUPAC line macro name */\n"
                "#ifndef SPEC_LINESHELL_H\n#define SPEC_LINESHELL_H\n"
                "static const int SPEC_LINE_SHELL[%d] = {%s};\n#endif\n" % (len(shell_of), ", ".join(shell_of)))
    # all nine shells that have Kissel XRF functions (C08 line dispatch)
    nine = ["K", "L1", "L2", "L3", "M1", "M2", "M3", "M4", "M5"]
    sh9 = []
    for v, n in byslot:
        m9 = re.match(r"^(K|L[123]|M[1-5])(?![0-9])", n)
        sh9.append(m9.group(1) + "_SHELL" if m9 else "-1")
    with open(os.path.join(d, "spec_lineshell9.h"), "w") as f:
        f.write("/* generated: starting shell (K..M5, else -1) of each line macro, from its name */\n#ifndef SPEC_LINESHELL9_H\n#define SPEC_LINESHELL9_H\n"
                "static const int SPEC_LINE_SHELL9[%d] = {%s};\n#endif\n" % (len(sh9), ", ".join(sh9)))
    # the hand-ordered L-beta member lists of harness/h_fluor.c must be exactly the name-derived set
    hf = os.path.join(os.path.dirname(os.path.dirname(os.path.abspath(__file__))), "harness", "h_fluor.c")
    if os.path.exists(hf):
        txt = read(hf)
        got = set()
        for arr in ("LB_L2", "LB_L3", "LB_L1"):
            m = re.search(r"static const int %s\[\] = \{([^}]*)\}" % arr, txt)
            if not m:
                raise Undecided("L-beta member list %s not found in harness/h_fluor.c" % arr)
            got |= {x.strip() for x in m.group(1).split(",") if x.strip()}
        want = set()
        dmap = {x[0]: (x[1], x[2]) for x in doublets}
        for a, t in lbm:
            want.add(t)
            if t in dmap:
                want |= set(dmap[t])
        if got != want:
            raise Undecided("L-beta member list of harness/h_fluor.c differs from the name-derived set: %s" % sorted(got ^ want))
    return {"ka": ka, "kb": kb, "doublets": doublets, "la": la, "lb": lbm}


# --------------------------------------------------------------------------- K3: macro <-> slot <-> name table

def gen_name_chain(sc, mac):
    """gen/k3_names.c: one assertion per macro: the name table entry at the macro's slot spells the macro's name.
    The table the build-time parser uses to file data-file records (src/xrayvars.c) is the real one; the expected
    spelling is derived from the header text.  Character-wise, so every assertion is over constant data."""
    d = sc.gen_dir()
    out = ['/* generated from include/xraylib-lines.h, xraylib-shells.h, xraylib.h (transitions), xraylib-auger.h */',
           '#include "config.h"', '#include "xraylib.h"', '#include "xrayvars.h"', '#include "xrayglob.h"',
           'extern char ShellName[][5]; extern char LineName[][6]; extern char TransName[][6]; extern char AugerName[][9];',
           'void k3_names(void) {']
    n = 0

    def spell(table, idx, name, macro):
        nonlocal n
        conds = ["%s[%s][%d] == '%s'" % (table, idx, i, ch) for i, ch in enumerate(name)]
        conds.append("%s[%s][%d] == 0" % (table, idx, len(name)))
        out.append('  __CPROVER_assert(%s, "name chain: %s[%s] spells \\"%s\\"");' % (" && ".join(conds), table, macro, name))
        n += 1
    nshellnames = None
    for name, v in mac.shells:
        if v < 28:  # ShellName has one entry per column of the 28-column scalar tables (SHELLNUM); checked below
            spell("ShellName", name, name[:-6], name)
    for name, v in mac.lines_all:
        if v < 0:
            spell("LineName", "-(%s) - 1" % name, name[:-5], name)
    for name, v in mac.trans:
        b = name[:-6]
        dat = ("F" + b[2:]) if b.startswith("FL") else b
        spell("TransName", name, dat, name)
    for name, v in mac.auger:
        b = name[:-6]
        spell("AugerName", name, b.replace("_", "-", 1), name)
    out.append('  __CPROVER_assert(SHELLNUM == 28 && LINENUM == %d && TRANSNUM == %d && AUGERNUM == %d, "table dimensions equal the number of macros");'
               % (len([1 for _, v in mac.lines_all if v < 0]), len(mac.trans) + 1, len(mac.auger)))
    out.append('  __CPROVER_assert(0, "CANARY name chain reached");')
    out.append('}')
    path = os.path.join(d, "k3_names.c")
    with open(path, "w") as f:
        f.write("\n".join(out) + "\n")
    return path, n


# --------------------------------------------------------------------------- Auger (C11, C08)

SHELL_RE = r"(K|L[123]|M[1-5]|N[1-7]|O[1-7]|P[1-5]|Q[1-3])"


def parse_auger_name(n):
    """'L1_M1L2_AUGER' -> ('L1', 'M1', 'L2')"""
    m = re.match(r"^%s_%s%s_AUGER$" % (SHELL_RE, SHELL_RE, SHELL_RE), n)
    if not m:
        raise Undecided("cannot parse Auger macro name " + n)
    return m.group(1), m.group(2), m.group(3)


def gen_auger_spec(sc, mac):
    """gen/spec_auger.h, derived from the names of the 996 Auger macros and the Coster-Kronig transition macros:
       * initial shell of each transition (name prefix)
       * Coster-Kronig type: one of the two final holes lies in the principal shell of the initial vacancy
       * per shell: the Coster-Kronig-type transitions in ascending macro order (subtracted from the shell total)
       * per shell: the Coster-Kronig probabilities F<X>ij that start in it, ascending                       """
    d = sc.gen_dir()
    shells9 = ["K", "L1", "L2", "L3", "M1", "M2", "M3", "M4", "M5"]
    info = []
    vals = [v for _, v in mac.auger]
    if vals != list(range(len(vals))):
        raise Undecided("Auger macro values are not 0..N-1 in header order")
    for n, v in mac.auger:
        a, b, c = parse_auger_name(n)
        ck = (b[0] == a[0]) or (c[0] == a[0])
        info.append((n, v, a, b, c, ck))
    out = ["/* generated from the macro names of include/xraylib-auger.h and the F*_TRANS macros of include/xraylib.h */",
           "#ifndef SPEC_AUGER_H", "#define SPEC_AUGER_H",
           "#define SPEC_NAUGER %d" % len(info),
           "static const signed char SPEC_AUGER_SHELL[%d] = {%s};" % (len(info), ", ".join(a + "_SHELL" for _, _, a, _, _, _ in info)),
           "static const unsigned char SPEC_AUGER_CK[%d] = {%s};" % (len(info), ", ".join("1" if x[5] else "0" for x in info))]
    for s in shells9:
        lst = [n for n, v, a, b, c, ck in info if a == s and ck]
        out.append("#define SPEC_NCK_%s %d" % (s, len(lst)))
        out.append("static const int SPEC_CK_%s[%d] = {%s};" % (s, max(len(lst), 1), ", ".join(lst) if lst else "0"))
        rng = [v for n, v, a, b, c, ck in info if a == s]
        if rng and rng != list(range(rng[0], rng[-1] + 1)):
            raise Undecided("Auger macros of shell %s are not contiguous" % s)
        out.append("#define SPEC_AUGER_%s_LO %d" % (s, rng[0] if rng else 1))
        out.append("#define SPEC_AUGER_%s_HI %d" % (s, rng[-1] if rng else 0))
    # Coster-Kronig probabilities per source sub-shell: F L|M [P] i j  -> source = letter + i
    for s in shells9:
        lst = []
        for n, v in mac.trans:
            m = re.match(r"^F([LM])P?(\d)(\d)_TRANS$", n)
            if m and m.group(1) + m.group(2) == s:
                lst.append(n)
        out.append("#define SPEC_NCKTRANS_%s %d" % (s, len(lst)))
        out.append("static const int SPEC_CKTRANS_%s[%d] = {%s};" % (s, max(len(lst), 1), ", ".join(lst) if lst else "0"))
    out.append("#endif")
    with open(os.path.join(d, "spec_auger.h"), "w") as f:
        f.write("\n".join(out) + "\n")
    return info


# --------------------------------------------------------------------------- cascade model (C08)

CASC_SHELLS = ["K", "L1", "L2", "L3", "M1", "M2", "M3", "M4", "M5"]


def _inner_shells(t):
    """excited inner shells whose vacancies can be transferred to t: every shell of a lower principal shell"""
    order = {"K": 0, "L": 1, "M": 2}
    return [s for s in CASC_SHELLS if order[s[0]] < order[t[0]]]


def _lower_subshells(t):
    return [s for s in CASC_SHELLS if s[0] == t[0] and s != "K" and len(s) == 2 and len(t) == 2 and int(s[1]) < int(t[1])]


def gen_cascade(sc, mac):
    """gen/h_cascade.c: lemma harnesses whose right-hand sides are generated from the macro names.

    layer 1  P<T>_get_cross_sections_constant_{auger_only,full}(Z, S)
             = [FluorYield(S) * RadRate(<S><T>_LINE) +] AugerYield(S) * sum of AugerRate over every S_xy_AUGER macro with
               a final hole in T (twice when both holes are T), ascending, Coster-Kronig-type transitions left out (C11)
    layer 2  P<T>_{pure,rad_cascade,auger_cascade,full_cascade}_kissel(Z, E, vacancies of the shells above)
             = CS_Photo_Partial(T) + per excited inner shell S with vacancies: nothing / FluorYield(S)*P_S*RadRate(ST) /
               P_S*constant_auger_only[T][S] / P_S*constant_full[T][S]  + Coster-Kronig feeding (F<X>ij by name) from the lower
               sub-shells of the same principal shell
    layer 3  CS_FluorShell_Kissel_<variant>(Z, shell, E) = P<shell>_<variant>(...chain of the shells above...) * FluorYield(shell)
    """
    d = sc.gen_dir()
    info = []
    for n, v in mac.auger:
        a, b, c = parse_auger_name(n)
        ck = (b[0] == a[0]) or (c[0] == a[0])
        info.append((n, v, a, b, c, ck))
    o = ['/* generated by vlib/specgen.py gen_cascade() from the macro names of the headers of the current tree */',
         '#include "vh.h"', '#include "vstub.h"', '#include "leaves.h"',
         '#define FAILS(r, error) ((r) == 0.0 && ONE_ERROR(error))',
         'extern double xrf_cross_sections_constants_full[ZMAX+1][M5_SHELL+1][L3_SHELL+1];',
         'extern double xrf_cross_sections_constants_auger_only[ZMAX+1][M5_SHELL+1][L3_SHELL+1];']
    groups = {"layer1": [], "layer2": [], "layer3": []}

    # ---- layer 1
    for t in CASC_SHELLS[1:]:
        for variant in ("auger_only", "full"):
            fn = "P%s_get_cross_sections_constant_%s" % (t, variant)
            name = "lemma_" + fn
            o.append("LEMMA(%s)\n{\n  ND_Z(Z);\n  double r, e;\n  int s;" % name)
            srcs = [s for s in _inner_shells(t) if s in ("K", "L1", "L2", "L3")]
            for s in srcs:
                terms = []
                for n, v, a, b, c, ck in info:
                    if a != s or ck:
                        continue
                    k = (1 if b == t else 0) + (1 if c == t else 0)
                    if k == 2:
                        terms.append("2 * LEAF_AugerRate(Z, %s)" % n)
                    elif k == 1:
                        terms.append("LEAF_AugerRate(Z, %s)" % n)
                if not terms:
                    terms = ["0.0"]
                aug = "LEAF_AugerYield(Z, %s_SHELL) * (\n      %s)" % (s, " +\n      ".join(terms))
                if variant == "full":
                    line = "%s%s_LINE" % (s, t)
                    if line not in mac.line:
                        raise Undecided("no line macro " + line)
                    expr = "(LEAF_FluorYield(Z, %s_SHELL) * LEAF_RadRate(Z, %s) +\n    %s)" % (s, line, aug)
                else:
                    expr = aug
                o.append("  r = %s(Z, %s_SHELL);\n  e = %s;" % (fn, s, expr))
                o.append('  VASSERT(SAME(r, e), "%s(%s): %svacancy transfer = %sAuger yield x sum of Auger rates leaving a hole in %s (double holes twice), by name");'
                         % (fn, s, "", "yield x radiative rate + " if variant == "full" else "", t))
            o.append("  { ND_SHELL(other); VASSUME(%s);" % " && ".join("other != %s_SHELL" % s for s in srcs))
            o.append('    VASSERT(%s(Z, other) == 0.0, "%s: no transfer from any other shell"); }' % (fn, fn))
            o.append('  VCANARY("%s end");\n}' % fn)
            groups["layer1"].append((name, fn))

    # ---- layer 2
    kinds = [("pure", "pure_kissel"), ("rad", "rad_cascade_kissel"), ("auger", "auger_cascade_kissel"), ("full", "full_cascade_kissel")]
    sig = {}
    for t in CASC_SHELLS[1:]:
        for kind, suffix in kinds:
            fn = "P%s_%s" % (t, suffix)
            inner = [] if kind == "pure" else _inner_shells(t)
            lower = _lower_subshells(t)
            params = inner + lower
            sig[fn] = params
            name = "lemma_" + fn
            o.append("LEMMA(%s)\n{\n  ND_Z(Z); ND_ENERGY(E);" % name)
            for p in params:
                o.append("  ND_FINITE(P%s);" % p)
            o.append("  ND_ERRSLOT(error);\n  double r, e;")
            o.append("  VASSUME(Z_OK(Z));   /* precondition of these internal helpers: every caller validates Z first (layer 3) */")
            o.append("  GHOST_RESET();")
            o.append("  r = %s(%s, error);" % (fn, ", ".join(["Z", "E"] + ["P" + p for p in params])))
            o.append("  if (!LEAFOK_CS_Photo_Partial(Z, %s_SHELL, E)) {" % t)
            o.append('    VASSERT(FAILS(r, error), "%s: the shell\'s own photo-ionisation undefined (e.g. below the edge) fails with one error");' % fn)
            o.append("  } else {\n    e = LEAF_CS_Photo_Partial(Z, %s_SHELL, E);" % t)
            for s in inner:
                line = "%s%s_LINE" % (s, t)
                if kind == "rad":
                    term = "LEAF_FluorYield(Z, %s_SHELL) * P%s * LEAF_RadRate(Z, %s)" % (s, s, line)
                elif kind == "auger":
                    term = "P%s * xrf_cross_sections_constants_auger_only[Z][%s_SHELL][%s_SHELL]" % (s, t, s)
                else:
                    term = "P%s * xrf_cross_sections_constants_full[Z][%s_SHELL][%s_SHELL]" % (s, t, s)
                o.append("    if (P%s > 0.0) e += %s;" % (s, term))
            for s in lower:
                cks = [n for n, v in mac.trans if re.match(r"^F%sP?%s%s_TRANS$" % (t[0], s[1], t[1]), n)]
                if not cks:
                    raise Undecided("no Coster-Kronig macro from %s to %s" % (s, t))
                ck = " + ".join("LEAF_CosKronTransProb(Z, %s)" % c for c in cks)
                if len(cks) > 1:
                    ck = "(" + ck + ")"
                o.append("    if (P%s > 0.0) e += %s * P%s;" % (s, ck, s))
            o.append('    VCANARY("%s defined");' % fn)
            o.append('    VASSERT(SAME(r, e) && NO_ERROR(error), "%s = own partial photo-ionisation + %s + Coster-Kronig feeding from the lower sub-shells (macros by name)");'
                     % (fn, {"pure": "no transfer", "rad": "radiative transfer (yield x vacancies x rate)", "auger": "Auger transfer constants", "full": "full transfer constants"}[kind]))
            o.append("  }\n  ERRSLOT_DONE(error);\n}")
            groups["layer2"].append((name, fn))

    # ---- layer 3
    variants = [("no_Cascade", "pure"), ("Radiative_Cascade", "rad"), ("Nonradiative_Cascade", "auger"), ("Cascade", "full")]
    sfx = dict((k, s) for k, s in kinds)
    for vname, kind in variants:
        fn = "CS_FluorShell_Kissel_" + vname
        for t in CASC_SHELLS:
            name = "lemma_%s_%s" % (fn, t)
            o.append("LEMMA(%s)\n{\n  ND_Z(Z); ND_ENERGY(E); ND_ERRSLOT(error);\n  double r;\n  GHOST_RESET();" % name)
            o.append("  r = %s(Z, %s_SHELL, E, error);" % (fn, t))
            o.append("  if (!Z_OK(Z) || E <= 0.0) { VASSERT(FAILS(r, error), \"%s: Z or energy out of range is an error\"); }" % fn)
            o.append("  else if (!LEAFOK_FluorYield(Z, %s_SHELL)) { VASSERT(FAILS(r, error), \"%s: no fluorescence yield is an error\"); }" % (t, fn))
            o.append("  else {")
            if t == "K":
                vac = "LEAF_CS_Photo_Partial(Z, K_SHELL, E)"
                ok = "LEAFOK_CS_Photo_Partial(Z, K_SHELL, E)"
            else:
                # chain of the shells above t, in the order K, L1, ... (each receives the vacancies of all the earlier ones)
                vals = {}
                for s in CASC_SHELLS:
                    if s == "K":
                        if kind != "pure":
                            o.append("    double PK = LEAF_CS_Photo_Partial(Z, K_SHELL, E);")
                            vals["K"] = "PK"
                        continue
                    f2 = "P%s_%s" % (s, sfx[kind])
                    args = ", ".join(["Z", "E"] + ["P" + p for p in sig[f2]])
                    if s == t:
                        vac = "LEAF_%s(%s)" % (f2, args)
                        ok = "LEAFOK_%s(%s)" % (f2, args)
                        break
                    needed = any(s in sig["P%s_%s" % (u, sfx[kind])] for u in CASC_SHELLS[CASC_SHELLS.index(s) + 1:CASC_SHELLS.index(t) + 1])
                    if needed:
                        o.append("    double P%s = LEAF_%s(%s);" % (s, f2, args))
            o.append("    if (!%s) { VASSERT(FAILS(r, error), \"%s: undefined vacancy production (e.g. below the edge) is an error\"); }" % (ok, fn))
            o.append("    else { VCANARY(\"%s %s defined\");" % (fn, t))
            o.append("      VASSERT(SAME(r, %s * LEAF_FluorYield(Z, %s_SHELL)) && NO_ERROR(error), \"%s(%s) = vacancy production of the shell (%s chain over the shells above) x fluorescence yield\"); }"
                     % (vac, t, fn, t, kind))
            o.append("  }\n  ERRSLOT_DONE(error);\n}")
            groups["layer3"].append((name, fn, t, kind))
        name = "lemma_%s_other" % fn
        o.append("LEMMA(%s)\n{\n  ND_Z(Z); ND_SHELL(shell); ND_ENERGY(E); ND_ERRSLOT(error);\n  double r;\n  VASSUME(shell < K_SHELL || shell > M5_SHELL);\n  GHOST_RESET();" % name)
        o.append("  r = %s(Z, shell, E, error);\n  VCANARY(\"%s other shell\");\n  VASSERT(FAILS(r, error), \"%s: a shell outside K..M5 is an error\");\n  ERRSLOT_DONE(error);\n}" % (fn, fn, fn))
        groups["layer3"].append((name, fn, "other", kind))
    # layer 1 goes into its own file: its functions exist only in the build-time generator, not in the library,
    # so the native twin (replay) is built from layers 2 and 3 only
    txt = "\n".join(o) + "\n"
    i1 = txt.index("LEMMA(lemma_PL1_get_cross_sections_constant_auger_only)")
    i2 = txt.index("LEMMA(lemma_PL1_pure_kissel)")
    head = txt[:i1]
    path1 = os.path.join(d, "h_cascade1.c")
    path23 = os.path.join(d, "h_cascade23.c")
    with open(path1, "w") as f:
        f.write(head + txt[i1:i2])
    with open(path23, "w") as f:
        f.write(head + txt[i2:])
    return (path1, path23), groups, sig


# --------------------------------------------------------------------------- catalogues (C15)

def gen_catalog_spec(sc):
    """gen/spec_catalog.h: the published index macros of the NIST and radionuclide catalogues, in value order"""
    d = sc.gen_dir()
    nist = parse_defines(os.path.join(sc.inc, "xraylib-nist-compounds.h"), r"^NIST_COMPOUND_")
    nuc = parse_defines(os.path.join(sc.inc, "xraylib-radionuclides.h"), r"^RADIO_NUCLIDE_")
    out = ["/* generated from include/xraylib-nist-compounds.h and include/xraylib-radionuclides.h */"]
    for tag, lst, pre in (("NIST", nist, "NIST_COMPOUND_"), ("NUCLIDE", nuc, "RADIO_NUCLIDE_")):
        vals = sorted(v for _, v in lst)
        if not lst or vals != list(range(len(lst))):
            raise Undecided("%s index macros are not a permutation of 0..N-1" % tag)
        byv = dict((v, n) for n, v in lst)
        out.append("#define SPEC_N%s %d" % (tag, len(lst)))
        out.append("static const char *const SPEC_%s_MACRO[%d] = {%s};" % (tag, len(lst), ", ".join('"%s"' % byv[i][len(pre):] for i in range(len(lst)))))
    with open(os.path.join(d, "spec_catalog.h"), "w") as f:
        f.write("\n".join(out) + "\n")
    return len(nist), len(nuc)
