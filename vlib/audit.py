"""K4: run the native TABLES_WF audit on the library built from the current tree."""
import os
import re
from . import core


def run_table_audit(sc, select=None):
    nat = sc.native()
    exe = os.path.join(nat["dir"], "audit_tables")
    if not os.path.exists(exe):
        cmd = ["gcc", "-O1", "-w"] + nat["inc"] + [os.path.join(core.VERIF, "native", "audit_tables.c"), nat["lib"], "-lm",
                                                   "-fsanitize=address,undefined", "-o", exe]
        core.run_tool(cmd, 600, "gcc audit_tables")
    out = core.run_tool([exe], 600, "audit_tables")
    res = []
    for line in out.splitlines():
        m = re.match(r"^AUDIT (\S+) (PASS|FAIL) (\d+) ?(.*)$", line)
        if not m:
            continue
        name = m.group(1)
        if select and not any(re.search(x, name) for x in select):
            continue
        res.append({"name": "TABLES_WF." + name, "status": "passed" if m.group(2) == "PASS" else "failed",
                    "violating_cells": int(m.group(3)), "detail": m.group(4)})
    if not res:
        raise core.Undecided("table audit produced no result")
    return res
