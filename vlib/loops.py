"""Loop-contract injection (DESIGN 3.5).

The real source is copied to <scratch>/inj/src and CBMC-only clause lines are inserted after the header of the
loop identified by (function name, loop ordinal); optionally an assertion is inserted right after that loop.
Nothing is dropped or rewritten.  An anchor that is not found raises Undecided (exit 2), never a violation."""
import os
import re
from .core import Undecided


def _mask(src):
    """same-length text with comments and string/char literals blanked (so that braces/keywords inside are ignored)"""
    out = list(src)
    i, n = 0, len(src)
    while i < n:
        c = src[i]
        if src.startswith("/*", i):
            j = src.find("*/", i + 2)
            j = n if j < 0 else j + 2
            for k in range(i, j):
                if out[k] != "\n":
                    out[k] = " "
            i = j
        elif src.startswith("//", i):
            j = src.find("\n", i)
            j = n if j < 0 else j
            for k in range(i, j):
                out[k] = " "
            i = j
        elif c in "\"'":
            j = i + 1
            while j < n and src[j] != c:
                j += 2 if src[j] == "\\" else 1
            for k in range(i + 1, min(j, n)):
                if out[k] != "\n":
                    out[k] = " "
            i = j + 1
        else:
            i += 1
    return "".join(out)


def _match(m, i, op, cl):
    depth = 0
    n = len(m)
    while i < n:
        if m[i] == op:
            depth += 1
        elif m[i] == cl:
            depth -= 1
            if depth == 0:
                return i
        i += 1
    raise Undecided("unbalanced %s%s" % (op, cl))


def inject(sc, relsrc, specs):
    """specs: list of dict(function=, ordinal=, clauses=[...], after=[...]).  Returns the path (relative to the scratch
    directory) of the annotated copy."""
    src_path = os.path.join(sc.dir, relsrc)
    with open(src_path) as f:
        src = f.read()
    edits = []   # (position, text)
    m = _mask(src)
    for sp in specs:
        fn = sp["function"]
        mm = None
        for cand in re.finditer(r"\b%s\s*\(" % re.escape(fn), m):
            close = _match(m, cand.end() - 1, "(", ")")
            k = close + 1
            while k < len(m) and m[k] in " \t\r\n":
                k += 1
            if k < len(m) and m[k] == "{":
                mm = (cand, k)
                break
        if not mm:
            raise Undecided("loop anchor: definition of %s not found in %s" % (fn, relsrc))
        body_start = mm[1]
        body_end = _match(m, body_start, "{", "}")
        loops = [x for x in re.finditer(r"\b(while|for)\s*\(", m[body_start:body_end])]
        # a do-while's trailing while(...) ; is not a loop header
        real = []
        for x in loops:
            hdr_open = body_start + x.end() - 1
            hdr_close = _match(m, hdr_open, "(", ")")
            k = hdr_close + 1
            while k < len(m) and m[k] in " \t\r\n":
                k += 1
            if x.group(1) == "while" and m[k] == ";":
                continue
            real.append((hdr_open, hdr_close, k))
        if sp["ordinal"] >= len(real):
            raise Undecided("loop anchor: %s has %d loops, ordinal %d requested" % (fn, len(real), sp["ordinal"]))
        hdr_open, hdr_close, k = real[sp["ordinal"]]
        edits.append((hdr_close + 1, "\n" + "\n".join(sp["clauses"]) + "\n"))
        if sp.get("after"):
            if m[k] == "{":
                end = _match(m, k, "{", "}") + 1
            else:
                end = m.index(";", k) + 1
            edits.append((end, "\n" + "\n".join(sp["after"]) + "\n"))
        sc.injections.append({"file": relsrc, "function": fn, "loop_ordinal": sp["ordinal"], "clauses": sp["clauses"],
                              "inserted_after_loop": sp.get("after", [])})
    out = src
    for pos, text in sorted(edits, reverse=True):
        out = out[:pos] + text + out[pos:]
    rel = os.path.join("inj", relsrc)
    dst = os.path.join(sc.dir, rel)
    os.makedirs(os.path.dirname(dst), exist_ok=True)
    with open(dst, "w") as f:
        f.write(out)
    return rel
