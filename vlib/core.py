"""Core of the xraylib contract-verification runner.

Pipeline per obligation group (see DESIGN.md section 3):

    scratch copy of /repo/{src,include}      (outside /repo and /verif, removed at exit)
      -> optional loop-clause injection       (vlib/loops.py, keyed by function + loop ordinal)
      -> goto-cc -c <real source>             (optionally --export-file-local-symbols)
      -> goto-instrument --remove-function-body  (K2: callee bodies replaced by UF stubs)
      -> goto-cc link with harness/contracts/stubs from /verif
      -> goto-instrument --dfcc ... --enforce-contract f --replace-call-with-contract g   (K1)
         or --nondet-static-matching <tables>                                                (K2)
      -> cbmc (portfolio of back ends, first definite answer wins)
      -> per-obligation verdicts parsed from --json-ui

Verdicts: exit 0 all discharged; exit 1 + VIOLATION line on a FAILED obligation that is not a
listed known finding; exit 2 undecided (time-out, tool error, vacuity canary unreachable).
"""
import concurrent.futures as cf
import hashlib
import json
import os
import re
import shutil
import signal
import subprocess
import sys
import tempfile
import threading
import time

REPO = os.environ.get("XRLV_REPO", "/repo")
VERIF = os.path.dirname(os.path.dirname(os.path.abspath(__file__)))
NCPU = int(os.environ.get("XRLV_JOBS", str(os.cpu_count() or 4)))
MEM_KB = int(os.environ.get("XRLV_MEM_KB", str(12 * 1024 * 1024)))  # ulimit -v per tool process

_slots = threading.BoundedSemaphore(NCPU)
_alloc_lock = threading.Lock()
_print_lock = threading.Lock()


def log(msg):
    with _print_lock:
        sys.stderr.write(msg + "\n")
        sys.stderr.flush()


# every tool runs in its own process group; the groups are killed when the runner exits or is terminated, so that no
# solver (cbmc spawns cvc5/z3 as grandchildren) outlives its check
_pgids = set()
_pg_lock = threading.Lock()


def _kill_all_groups(*_a):
    with _pg_lock:
        for pg in list(_pgids):
            try:
                os.killpg(pg, signal.SIGKILL)
            except Exception:
                pass
        _pgids.clear()


def _on_term(signum, frame):
    _kill_all_groups()
    os._exit(143)


import atexit
atexit.register(_kill_all_groups)
try:
    signal.signal(signal.SIGTERM, _on_term)
    signal.signal(signal.SIGINT, _on_term)
    signal.signal(signal.SIGHUP, _on_term)
except Exception:
    pass


class Undecided(Exception):
    """Tool error / time-out / anchor miss: the check cannot decide (exit 2)."""


# --------------------------------------------------------------------------- scratch

class Scratch:
    """A throw-away copy of the parts of /repo the verifier reads."""

    def __init__(self, tag):
        base = os.environ.get("XRLV_TMP", "/tmp")
        self.dir = tempfile.mkdtemp(prefix="xrlv-%s-" % tag, dir=base)
        self.src = os.path.join(self.dir, "src")
        self.inc = os.path.join(self.dir, "include")
        shutil.copytree(os.path.join(REPO, "src"), self.src)
        shutil.copytree(os.path.join(REPO, "include"), self.inc)
        cfg = os.path.join(REPO, "_build", "config.h")
        if os.path.exists(cfg):
            shutil.copy(cfg, os.path.join(self.dir, "config.h"))
        else:
            with open(os.path.join(self.dir, "config.h"), "w") as f:
                f.write('#pragma once\n#define HAVE_COMPLEX_H\n#define HAVE_STRDUP 1\n#define HAVE_STRNDUP 1\n'
                        '#define PACKAGE_TARNAME "xraylib"\n#define PACKAGE_VERSION "0"\n#define VERSION "0"\n'
                        '#define XRL_EXTERN __attribute__((visibility("default"))) extern\n')
        self.obj = os.path.join(self.dir, "obj")
        os.makedirs(self.obj)
        self.work = os.path.join(self.dir, "work")
        os.makedirs(self.work)
        self._objlock = threading.Lock()
        self._objcache = {}
        self._native = None
        self._nativelock = threading.Lock()
        self.injections = []  # log of loop clauses inserted

    def cleanup(self):
        shutil.rmtree(self.dir, ignore_errors=True)

    def cflags(self):
        return ["-I", self.inc, "-I", self.src, "-I", self.dir,
                "-I", os.path.join(VERIF, "contracts"), "-I", os.path.join(VERIF, "harness"),
                "-I", os.path.join(self.dir, "gen"),
                "-DHAVE_CONFIG_H", "-D_GNU_SOURCE"]

    def gen_dir(self):
        d = os.path.join(self.dir, "gen")
        os.makedirs(d, exist_ok=True)
        return d

    # -- goto objects of real sources, cached per (file, flags)
    def goto_obj(self, relsrc, export_local=False, defines=()):
        key = (relsrc, export_local, tuple(defines))
        with self._objlock:
            ent = self._objcache.get(key)
            if ent is None:
                ent = {"lock": threading.Lock(), "path": None}
                self._objcache[key] = ent
        with ent["lock"]:
            if ent["path"] is None:
                h = hashlib.sha1(repr(key).encode()).hexdigest()[:10]
                out = os.path.join(self.obj, os.path.basename(relsrc).replace(".c", "") + "-" + h + ".gb")
                src = relsrc if os.path.isabs(relsrc) else os.path.join(self.dir, relsrc)
                cmd = ["goto-cc", "-c"] + self.cflags() + ["-DVERIF_CBMC"] + list(defines)
                if export_local:
                    cmd.append("--export-file-local-symbols")
                cmd += [src, "-o", out]
                run_tool(cmd, 600, "goto-cc " + relsrc)
                ent["path"] = out
        return ent["path"]

    # -- native library built from the current tree (tables generated by the real pr_data)
    def native(self):
        with self._nativelock:
            if self._native is None:
                self._native = build_native(self)
        return self._native


LIB_SOURCES = """atomicweight.c auger_trans.c coskron.c cross_sections.c crystal_diffraction.c fi.c fii.c
fluor_yield.c radrate.c scattering.c splint.c xraylib-aux.c xraylib-error.c xrayvars.c atomiclevelwidth.c
comptonprofiles.c cs_barns.c cs_cp.c cs_line.c densities.c edges.c fluor_lines.c jump.c kissel_pe.c polarized.c
refractive_indices.c xrayfiles_inline.c xraylib-nist-compounds.c xraylib-parser.c xraylib-radionuclides.c
xrf_cross_sections_aux.c""".split()
PRDATA_SOURCES = """pr_data.c atomicweight.c auger_trans.c coskron.c cross_sections.c crystal_diffraction.c fi.c fii.c
fluor_yield.c radrate.c scattering.c splint.c xraylib-aux.c xraylib-error.c xrayvars.c xrayglob.c xrayfiles.c
xrf_cross_sections_aux-private.c""".split()


def build_native(sc):
    """Build the library natively from the scratch copy of the current tree: the real generator
    (pr_data) is compiled and run on /repo/data, its output compiled together with the real
    sources (ASan + UBSan, -ffp-contract=off).  ~10 s."""
    t0 = time.time()
    nd = os.path.join(sc.dir, "native")
    os.makedirs(nd, exist_ok=True)
    src = sc.src  # pristine copy of the current tree (loop clauses are injected into sc.dir/inj, never here)
    inc = ["-I", sc.inc, "-I", src, "-I", sc.dir, "-DHAVE_CONFIG_H", "-D_GNU_SOURCE"]
    prdata = os.path.join(nd, "prdata")
    run_tool(["gcc", "-O1", "-w"] + inc + ["-o", prdata] + [os.path.join(src, s) for s in PRDATA_SOURCES] + ["-lm"],
             600, "gcc prdata")
    inline = os.path.join(nd, "xrayglob_inline.c")
    run_tool([prdata, REPO, inline], 600, "prdata")
    objs = []
    flags = ["-O1", "-g", "-w", "-fno-omit-frame-pointer", "-ffp-contract=off", "-fsanitize=address,undefined",
             "-fno-sanitize-recover=undefined"]

    def cc(path, out, fl):
        run_tool(["gcc", "-c"] + fl + inc + [path, "-o", out], 900, "gcc " + os.path.basename(path))
        return out
    jobs = []
    with cf.ThreadPoolExecutor(max_workers=NCPU) as ex:
        jobs.append(ex.submit(cc, inline, os.path.join(nd, "xrayglob_inline.o"), ["-O0", "-w"]))
        for s in LIB_SOURCES:
            jobs.append(ex.submit(cc, os.path.join(src, s), os.path.join(nd, s.replace(".c", ".o")), flags))
        objs = [j.result() for j in jobs]
    lib = os.path.join(nd, "libxrl_native.a")
    run_tool(["ar", "rcs", lib] + objs, 120, "ar")
    log("[native] library built from current tree in %.1fs" % (time.time() - t0))
    return {"lib": lib, "dir": nd, "inc": inc, "san": ["-fsanitize=address,undefined", "-fno-sanitize-recover=undefined"]}


# --------------------------------------------------------------------------- tools

def _limits():
    import resource
    try:
        resource.setrlimit(resource.RLIMIT_AS, (MEM_KB * 1024, MEM_KB * 1024))
    except Exception:
        pass
    os.setsid()


def run_tool(cmd, timeout, what, ok_codes=(0,), stdout_path=None, limit_mem=False):
    """Run a tool synchronously; raise Undecided on failure."""
    with _slots:
        try:
            out = open(stdout_path, "w") if stdout_path else subprocess.PIPE
            p = subprocess.Popen(cmd, stdout=out, stderr=subprocess.PIPE, preexec_fn=_limits if limit_mem else os.setsid)
            with _pg_lock:
                _pgids.add(p.pid)
            try:
                so, se = p.communicate(timeout=timeout)
            except subprocess.TimeoutExpired:
                os.killpg(p.pid, signal.SIGKILL)
                p.communicate()
                raise Undecided("%s: timed out after %ss" % (what, timeout))
            finally:
                with _pg_lock:
                    _pgids.discard(p.pid)
                if stdout_path:
                    out.close()
        except OSError as e:
            raise Undecided("%s: %s" % (what, e))
    if p.returncode not in ok_codes:
        raise Undecided("%s: exit %s: %s" % (what, p.returncode, (se or b"").decode(errors="replace")[-1500:]))
    return (so or b"").decode(errors="replace") if not stdout_path else ""


BACKENDS = {
    "sat": [],
    "cvc5": ["--cvc5"],
    "z3": ["--z3"],
    "kissat": ["--external-sat-solver", "kissat"],
}

SAFETY_FLAGS = ["--bounds-check", "--pointer-check", "--pointer-primitive-check", "--div-by-zero-check",
                "--signed-overflow-check", "--conversion-check", "--undefined-shift-check",
                "--no-malloc-may-fail"]


class Group:
    """One obligation group = one goto binary checked by a portfolio of back ends."""

    def __init__(self, name, kind, entry, sources=(), extra=(), enforce=None, replace=(), loop_contracts=False,
                 remove_bodies=(), nondet_static=None, flags=(), unwind=None, backends=("cvc5", "z3"),
                 canary_backends=None,
                 timeout=600, functions=(), export_local=False, defines=(), leak_check=False, note="",
                 bounded=None, no_safety=False, stubs_used=(), restrict_retry=None, nondet_static_exclude=(),
                 object_bits=None, native_harness=None, harness_defines=(), expect_canaries=None, attempt_only=False):
        self.name = name
        self.kind = kind                  # K1 K2 K3 K5
        self.entry = entry
        self.sources = list(sources)      # repo-relative ("src/edges.c")
        self.extra = list(extra)          # /verif-relative C files (harness, stubs)
        self.enforce = enforce
        self.replace = list(replace)
        self.loop_contracts = loop_contracts
        self.remove_bodies = list(remove_bodies)
        self.nondet_static = nondet_static
        self.nondet_static_exclude = list(nondet_static_exclude)
        self.flags = list(flags)
        self.unwind = unwind
        self.backends = list(backends)
        self.canary_backends = list(canary_backends or backends)
        self.timeout = timeout
        self.functions = list(functions)  # real functions whose body is under proof in this group
        self.export_local = export_local
        self.defines = list(defines)
        self.leak_check = leak_check
        self.note = note
        self.bounded = bounded            # text of the bound for K5 groups
        self.no_safety = no_safety
        self.stubs_used = list(stubs_used)
        self.object_bits = object_bits    # only where needed: 12 object bits made a 4 s query take 165 s
        self.native_harness = native_harness
        self.attempt_only = attempt_only  # thorough tier only; an undecided outcome is reported, never counted
        self.expect_canaries = expect_canaries  # None: every canary must be reachable; else list of substrings
        self.harness_defines = list(harness_defines)  # -D flags for the /verif files only (not for the real sources)
        self.restrict_retry = restrict_retry  # define that restricts UF leaves to {0,1,2} (refutation acceleration)


class GroupResult:
    def __init__(self, group):
        self.group = group
        self.status = "undecided"     # proved | failed | undecided
        self.backend = None
        self.solver_s = 0.0
        self.props = []               # list of dict(property, status, description, location, trace)
        self.reason = ""
        self.binary = None
        self.cmd = ""

    @property
    def obligations(self):
        return [p for p in self.props if not p["description"].startswith("CANARY")]

    @property
    def canaries(self):
        return [p for p in self.props if p["description"].startswith("CANARY")]


def build_binary(sc, g, extra_defines=(), tagsuffix=None):
    """goto-cc / goto-instrument steps; returns path of the final goto binary."""
    tag = re.sub(r"[^A-Za-z0-9_.=-]", "_", g.name) + (tagsuffix or ("-r" if extra_defines else ""))
    wd = os.path.join(sc.work, tag)
    os.makedirs(wd, exist_ok=True)
    objs = []
    for s in g.sources:
        o = sc.goto_obj(s, g.export_local, g.defines)
        objs.append(o)
    if g.remove_bodies:
        # remove callee bodies from the real objects (they are re-provided by stub TUs)
        newobjs = []
        for i, o in enumerate(objs):
            out = os.path.join(wd, "rb%d.gb" % i)
            cmd = ["goto-instrument"]
            for f in g.remove_bodies:
                cmd += ["--remove-function-body", f]
            cmd += [o, out]
            run_tool(cmd, 300, "remove-function-body " + g.name)
            newobjs.append(out)
        objs = newobjs
    a = os.path.join(wd, "a.gb")
    cmd = ["goto-cc", "--function", g.entry] + sc.cflags() + ["-DVERIF_CBMC"] + g.defines + g.harness_defines + list(extra_defines)
    cmd += objs + [e if os.path.isabs(e) else os.path.join(VERIF, e) for e in g.extra] + ["-o", a]
    run_tool(cmd, 600, "goto-cc link " + g.name)
    cur = a
    if g.enforce or g.replace or g.loop_contracts:
        b = os.path.join(wd, "b.gb")
        cmd = ["goto-instrument", "--dfcc", g.entry]
        if g.enforce:
            cmd += ["--enforce-contract", g.enforce]
        for r in g.replace:
            cmd += ["--replace-call-with-contract", r]
        if g.loop_contracts:
            cmd += ["--apply-loop-contracts"]
        cmd += [cur, b]
        run_tool(cmd, 900, "goto-instrument --dfcc " + g.name, limit_mem=True)
        cur = b
    if g.nondet_static:
        c = os.path.join(wd, "c.gb")
        cmd = ["goto-instrument", "--nondet-static-matching", g.nondet_static, cur, c]
        run_tool(cmd, 300, "nondet-static " + g.name)
        cur = c
    return cur


def cbmc_cmd(g, binary, backend, props=None, trace=False):
    cmd = ["cbmc", binary, "--json-ui", "--drop-unused-functions"]   # only obligations of functions reachable from the entry count
    if not g.no_safety and not os.environ.get("XRLV_NO_SAFETY"):
        cmd += SAFETY_FLAGS
    else:
        cmd += ["--no-malloc-may-fail", "--no-standard-checks"]
    if g.object_bits:
        cmd += ["--object-bits", str(g.object_bits)]
    if g.leak_check:
        cmd += ["--memory-leak-check"]
    if g.unwind is not None:
        cmd += ["--unwind", str(g.unwind), "--unwinding-assertions"]
    cmd += g.flags
    if "--slice-formula" not in g.flags and not getattr(g, "no_slice", False):
        # cone-of-influence slicing: constant tables that a lemma does not read (e.g. the 996-entry name-derived arrays)
        # otherwise stay in the formula; measured 140 s -> 3 s on an Auger-yield lemma
        cmd += ["--slice-formula"]
    cmd += BACKENDS[backend]
    if trace:
        cmd += ["--trace"]
    for p in props or ():
        cmd += ["--property", p]
    return cmd


def list_properties(g, binary):
    cmd = [c for c in cbmc_cmd(g, binary, "sat") if c != "--json-ui"] + ["--show-properties", "--json-ui"]
    out = run_tool(cmd, 600, "cbmc --show-properties " + g.name, limit_mem=True)
    try:
        j = json.loads(out)
    except Exception as e:
        raise Undecided("unparsable --show-properties output: %s" % e)
    props = []
    for m in j:
        if "properties" in m:
            for r in m["properties"]:
                loc = r.get("sourceLocation", {})
                props.append({"property": r["name"], "description": r.get("description", ""),
                              "location": "%s:%s %s" % (os.path.basename(loc.get("file", "?")), loc.get("line", "?"), loc.get("function", ""))})
    if not props:
        raise Undecided("no properties listed for " + g.name)
    return props


def parse_cbmc_json(path):
    try:
        with open(path) as f:
            txt = f.read()
        j = json.loads(txt)
    except Exception as e:
        return None, "unparsable cbmc output: %s" % e
    props = None
    status = None
    msgs = []
    for m in j:
        if "result" in m:
            props = m["result"]
        if "cProverStatus" in m:
            status = m["cProverStatus"]
        if m.get("messageType") in ("ERROR", "WARNING"):
            msgs.append(m.get("messageText", ""))
    if props is None:
        return None, "no result in cbmc output (%s) %s" % (status, " | ".join(msgs)[-800:])
    out = []
    for r in props:
        loc = r.get("sourceLocation", {})
        out.append({"property": r["property"], "status": r["status"], "description": r.get("description", ""),
                    "location": "%s:%s %s" % (os.path.basename(loc.get("file", "?")), loc.get("line", "?"), loc.get("function", "")),
                    "trace": r.get("trace")})
    return out, " | ".join(w for w in msgs if "ignoring" in w)


def _portfolio(g, binary, backends, timeout, props=None, trace=False, tagsuffix=""):
    """Run cbmc on several back ends concurrently; first definite answer wins."""
    procs = []
    wd = os.path.dirname(binary)
    t0 = time.time()
    acquired = 0
    # the slots of one portfolio are taken under a lock: two portfolios each holding part of what they need while
    # waiting for the rest would dead-lock the pool
    _alloc_lock.acquire()
    for be in backends:
        _slots.acquire()
        acquired += 1
        outp = os.path.join(wd, "out-%s%s.json" % (be, tagsuffix))
        errp = os.path.join(wd, "err-%s%s.txt" % (be, tagsuffix))
        cmd = cbmc_cmd(g, binary, be, props, trace)
        fo = open(outp, "w")
        fe = open(errp, "w")
        p = subprocess.Popen(cmd, stdout=fo, stderr=fe, preexec_fn=_limits, cwd=wd)
        with _pg_lock:
            _pgids.add(p.pid)
        procs.append({"be": be, "p": p, "out": outp, "fo": fo, "fe": fe, "cmd": cmd, "done": False, "released": False})
    _alloc_lock.release()
    winner = None
    reasons = []
    try:
        while True:
            alive = False
            for pr in procs:
                if pr["done"]:
                    continue
                rc = pr["p"].poll()
                if rc is None:
                    alive = True
                    continue
                pr["done"] = True
                with _pg_lock:
                    _pgids.discard(pr["p"].pid)
                pr["fo"].close()
                pr["fe"].close()
                if not pr["released"]:
                    _slots.release()
                    pr["released"] = True
                if rc in (0, 10):
                    parsed, warn = parse_cbmc_json(pr["out"])
                    if parsed is None:
                        reasons.append("%s: %s" % (pr["be"], warn))
                        continue
                    if warn:
                        reasons.append("%s: quantifier warning: %s" % (pr["be"], warn))
                        continue
                    winner = (pr, parsed, time.time() - t0)
                    break
                else:
                    parsed, warn = parse_cbmc_json(pr["out"])
                    reasons.append("%s: exit %s %s" % (pr["be"], rc, warn or ""))
            if winner or not alive:
                break
            if time.time() - t0 > timeout:
                reasons.append("time-out after %ss on %s" % (timeout, ",".join(p["be"] for p in procs if not p["done"])))
                break
            time.sleep(0.05)
    finally:
        for pr in procs:
            if not pr["done"]:
                try:
                    os.killpg(pr["p"].pid, signal.SIGKILL)
                except Exception:
                    pass
                pr["p"].wait()
                with _pg_lock:
                    _pgids.discard(pr["p"].pid)
                pr["fo"].close()
                pr["fe"].close()
            if not pr["released"]:
                _slots.release()
                pr["released"] = True
    return winner, reasons


def run_group(sc, g):
    res = GroupResult(g)
    if os.environ.get("XRLV_DEBUG_TIMEOUT"):   # debugging aid only: never set by a registered command
        g.timeout = min(g.timeout, int(os.environ["XRLV_DEBUG_TIMEOUT"]))
    try:
        binary = build_binary(sc, g)
    except Undecided as e:
        res.reason = str(e)
        return res
    res.binary = binary
    # list the obligations, then (a) prove everything that is not a canary, (b) check reachability of the
    # canaries in a separate query (each failing property costs the SMT back ends one more solver call)
    try:
        plist = list_properties(g, binary)
    except Undecided as e:
        res.reason = str(e)
        return res
    other_entry = re.compile(r"^(lemma_|h_|safe_|k3_)")
    def foreign(p):
        fn = p["location"].split(" ")[-1]
        return bool(other_entry.match(fn)) and fn != g.entry
    plist = [p for p in plist if not foreign(p)]
    canary_ids = [p["property"] for p in plist if p["description"].startswith("CANARY")]
    proof_ids = [p["property"] for p in plist if not p["description"].startswith("CANARY")]
    if not proof_ids:
        res.reason = "zero obligations generated (vacuous)"
        return res
    cres = {}
    cthread = None
    if canary_ids:
        def run_canaries():
            w, r = _portfolio(g, binary, g.canary_backends, g.timeout, props=canary_ids, tagsuffix="-canary")
            cres["w"] = w
            cres["r"] = r
        cthread = threading.Thread(target=run_canaries)
        cthread.start()
    winner, reasons = None, []
    if g.restrict_retry:
        # refutation pre-pass (DESIGN 3.6): with every UF leaf replaced by a concrete function of its integer macro
        # arguments both sides of an identity constant-fold; a FAILURE found under that extra constraint is a genuine
        # counterexample of the original obligation.  A SUCCESS of this run proves nothing and is discarded.
        try:
            rb = build_binary(sc, g, extra_defines=["-D" + g.restrict_retry])
            # the SAT back end gives every out-of-bounds read a fresh value (the SMT array theory does not): a refutation is
            # only believed if the same run, with bounds and pointer checks on, has no failing memory-safety property
            g2 = Group(g.name, g.kind, g.entry, flags=g.flags + ["--bounds-check", "--pointer-check"], unwind=g.unwind, no_safety=True,
                       object_bits=g.object_bits)
            w2, r2 = _portfolio(g2, rb, ["sat"], min(g.timeout, 120), tagsuffix="-concrete")
            memfail = w2 is not None and any(p["status"] == "FAILURE" and re.search(r"\.(array_bounds|pointer_dereference)\.", p["property"]) for p in w2[1])
            if memfail:
                reasons.append("refutation pre-pass discarded: it reaches an out-of-bounds or invalid read")
            if w2 is not None and not memfail and any(p["status"] == "FAILURE" and p["property"] in set(proof_ids) for p in w2[1]):
                # keep only the failures; everything else is decided by the real query below
                fails = {p["property"]: p for p in w2[1] if p["status"] == "FAILURE" and p["property"] in set(proof_ids)}
                res.refuted = fails
                res.refute_binary = rb
        except Undecided as e:
            reasons.append("refutation pre-pass: %s" % e)
    if getattr(res, "refuted", None):
        # prove the remaining obligations on the real binary; the refuted ones are reported as failed
        rest = [p for p in proof_ids if p not in res.refuted]
        if rest:
            winner, r3 = _portfolio(g, binary, g.backends, g.timeout, props=rest)
            reasons += r3
        if winner is None:
            winner = ({"be": "sat(concrete leaves)", "cmd": ["cbmc", "(refutation pre-pass)"]}, [], 0.0)
        pr0, parsed0, secs0 = winner
        parsed0 = [p for p in parsed0 if p["property"] not in res.refuted] + list(res.refuted.values())
        winner = (pr0, parsed0, secs0)
    else:
        winner, r3 = _portfolio(g, binary, g.backends, g.timeout, props=proof_ids)
        reasons += r3
    if winner is None and g.restrict_retry:
        # second refutation variant, only when no back end decided the real query: leaf outcomes symbolic, values concrete
        try:
            rb = build_binary(sc, g, extra_defines=["-D" + g.restrict_retry, "-DV_RESTRICT_OK"], tagsuffix="-ro")
            g2 = Group(g.name, g.kind, g.entry, flags=g.flags + ["--bounds-check", "--pointer-check"], unwind=g.unwind, no_safety=True,
                       object_bits=g.object_bits)
            w2, r2 = _portfolio(g2, rb, ["sat"], min(g.timeout, 300), props=proof_ids, tagsuffix="-concrete-ok")
            memfail = w2 is not None and any(p["status"] == "FAILURE" and re.search(r"\.(array_bounds|pointer_dereference)\.", p["property"]) for p in w2[1])
            if w2 is not None and not memfail:
                fails = {p["property"]: p for p in w2[1] if p["status"] == "FAILURE" and p["property"] in set(proof_ids)}
                if fails:
                    res.refuted = fails
                    res.refute_binary = rb
                    winner = ({"be": "sat(concrete leaf values, symbolic outcomes)", "cmd": ["cbmc", "(refutation pre-pass 2)"]}, list(fails.values()), 0.0)
        except Undecided as e:
            reasons.append("refutation pass 2: %s" % e)
    if cthread:
        cthread.join()
    if winner is None:
        res.reason = "; ".join(reasons) or "no back end answered"
        return res
    pr, parsed, secs = winner
    res.backend = pr["be"]
    res.solver_s = round(secs, 2)
    # After a FAILURE the SMT back ends sometimes give up on the remaining obligations (status UNKNOWN):
    # re-query exactly those, so that a failure never hides or fakes the verdict of another obligation.
    rounds = 0
    while rounds < 6:
        unknown = [p["property"] for p in parsed if p["status"] not in ("SUCCESS", "FAILURE")]
        if not unknown:
            break
        rounds += 1
        w, r2 = _portfolio(g, binary, g.backends, g.timeout, props=unknown, tagsuffix="-u%d" % rounds)
        if w is None:
            reasons += r2
            break
        byname = {q["property"]: q for q in w[1]}
        progress = False
        for i, p in enumerate(parsed):
            q = byname.get(p["property"])
            if p["status"] not in ("SUCCESS", "FAILURE") and q and q["status"] in ("SUCCESS", "FAILURE"):
                parsed[i] = q
                progress = True
        res.solver_s = round(res.solver_s + w[2], 2)
        if not progress:
            break
    parsed = [p for p in parsed if p["property"] in set(proof_ids)]
    if canary_ids:
        if cres.get("w") is None:
            reasons.append("canary query undecided: " + "; ".join(cres.get("r", [])))
            parsed += [{"property": c, "status": "UNKNOWN", "description": "CANARY (undecided)", "location": "", "trace": None} for c in canary_ids]
        else:
            parsed += [p for p in cres["w"][1] if p["property"] in set(canary_ids)]
    res.props = parsed
    res.cmd = " ".join(os.path.basename(c) if c.endswith(".gb") else c for c in pr["cmd"])
    failed = [p for p in res.obligations if p["status"] == "FAILURE"]
    unknown = [p for p in res.obligations if p["status"] not in ("SUCCESS", "FAILURE")]
    dead = [p for p in res.canaries if p["status"] != "FAILURE" and
            (g.expect_canaries is None or any(x in p["description"] for x in g.expect_canaries))]
    if g.expect_canaries is not None:
        for x in g.expect_canaries:
            if not any(x in p["description"] for p in res.canaries):
                dead.append({"description": "CANARY %s (not generated)" % x})
    if unknown and not failed:
        res.status = "undecided"
        res.reason = "%d obligations without a verdict (%s ...)" % (len(unknown), unknown[0]["property"])
    elif not res.obligations:
        res.status = "undecided"
        res.reason = "zero obligations generated (vacuous)"
    elif failed:
        # a counterexample stands on its own: unreachable or undecided canaries only matter for a claimed proof
        res.status = "failed"
        if unknown:
            res.reason = "%d further obligations without a verdict" % len(unknown)
        if dead:
            res.reason = (res.reason + "; " if res.reason else "") + "canaries without a verdict: " + ", ".join(p["description"] for p in dead)
        # fetch counterexample traces, one --property at a time
        for p in failed[:6]:
            refuted = getattr(res, "refuted", None) or {}
            tb = res.refute_binary if p["property"] in refuted else binary
            tbe = "sat" if p["property"] in refuted else res.backend
            w, _ = _portfolio(g, tb, [tbe], min(g.timeout, 600), props=[p["property"]], trace=True,
                              tagsuffix="-trace")
            if w:
                for q in w[1]:
                    if q["property"] == p["property"] and q.get("trace"):
                        p["trace"] = q["trace"]
    elif dead:
        res.status = "undecided"
        res.reason = "vacuity: canary unreachable: " + ", ".join(p["description"] for p in dead)
    else:
        res.status = "proved"
    if g.loop_contracts:
        if not any("loop_invariant_step" in p["property"] or "loop invariant" in p["description"].lower() for p in res.props):
            res.status = "undecided"
            res.reason = "loop contract requested but no loop-invariant obligation generated (contract silently dropped)"
    return res


def run_groups(sc, groups, max_parallel=None):
    results = [None] * len(groups)
    with cf.ThreadPoolExecutor(max_workers=max_parallel or max(2, NCPU // 2)) as ex:
        futs = {ex.submit(run_group, sc, g): i for i, g in enumerate(groups)}
        for f in cf.as_completed(futs):
            i = futs[f]
            try:
                results[i] = f.result()
            except Exception as e:  # tool crash inside the runner: undecided, never a violation
                r = GroupResult(groups[i])
                r.reason = "runner exception: %r" % (e,)
                results[i] = r
            r = results[i]
            log("[%s] %-9s %-44s %s %ss ob=%d %s" % (r.group.kind, r.status, r.group.name, r.backend or "-", r.solver_s,
                                                    len(r.obligations), r.reason[:300]))
    return results


# --------------------------------------------------------------------------- counterexamples

def trace_inputs(trace, entry):
    """Extract the harness-level inputs (assignments to locals of the entry function) from a cbmc trace.
    Doubles are reconstructed bit-exactly from the 'binary' field."""
    import struct
    vals = {}
    for s in trace or []:
        if s.get("stepType") != "assignment":
            continue
        if s.get("assignmentType") != "variable":
            continue
        fn = s.get("sourceLocation", {}).get("function")
        if fn != entry:
            continue
        lhs = s.get("lhs", "")
        if not re.match(r"^[A-Za-z][A-Za-z_0-9]*$", lhs) or lhs.startswith("return_value_"):
            continue
        v = s.get("value", {})
        if lhs in vals:
            continue
        if v.get("name") == "float" and v.get("binary") and len(v["binary"]) == 64:
            d = struct.unpack(">d", int(v["binary"], 2).to_bytes(8, "big"))[0]
            vals[lhs] = ("double", d.hex())
        elif v.get("name") == "integer" and "data" in v:
            vals[lhs] = ("int", re.sub(r"[a-zA-Z]+$", "", v["data"]))
        elif v.get("name") == "pointer":
            vals[lhs] = ("ptr", v.get("data", "?"))
            vals[lhs + "_present"] = ("int", "0" if "NULL" in v.get("data", "") else "1")
    return vals


def trace_summary(trace, limit=60):
    """Human-readable tail of a cbmc trace (assignments and function calls)."""
    out = []
    for s in trace or []:
        st = s.get("stepType")
        loc = s.get("sourceLocation", {})
        where = "%s:%s" % (os.path.basename(loc.get("file", "")), loc.get("line", ""))
        if st == "assignment" and not s.get("hidden") and not s.get("lhs", "").startswith("__CPROVER"):
            out.append("%s  %s = %s" % (where, s.get("lhs"), s.get("value", {}).get("data")))
        elif st == "function-call":
            out.append("%s  call %s" % (where, s.get("function", {}).get("displayName")))
        elif st == "failure":
            out.append("%s  FAILURE %s: %s" % (where, s.get("property"), s.get("reason")))
    return out[-limit:]
