"""Supporting static facts over the goto programs of the library (C16, C17) - computed with goto-cc / goto-instrument
from the current tree on every run:

  W  no instruction assigns an object of static lifetime (file-scope or function-local) outside initialisation
  L  no function declares a mutable function-local static (memo caches, scratch buffers)
  A  the address of a mutable static object is not handed to a callee
  G  no call to libc functions that read or write process-global state (setlocale, strtok, rand, chdir, stdout ...)

These are facts about the *text* of the goto program (what CBMC verifies), not proofs; writes through pointers are
covered by the assigns clauses of the K1 contracts."""
import os
import re
from . import core

GLOBAL_STATE_CALLS = {"setlocale": "numeric locale", "strtok": "strtok's hidden state", "rand": "PRNG state", "srand": "PRNG state",
                      "chdir": "working directory", "freopen": "standard streams", "putenv": "environment", "setenv": "environment",
                      "unsetenv": "environment", "tmpnam": "static buffer", "printf": "stdout", "puts": "stdout", "putchar": "stdout",
                      "localeconv": "locale", "asctime": "static buffer", "ctime": "static buffer", "localtime": "static buffer",
                      "gmtime": "static buffer", "exit": "process", "abort": "process", "signal": "signal table"}


def scan_library(sc, sources=None):
    sources = sources or core.LIB_SOURCES
    findings = []
    nfun = 0
    ninstr = 0
    for src in sources:
        if src == "xrayfiles_inline.c":
            continue
        obj = sc.goto_obj(os.path.join("src", src))
        st = core.run_tool(["goto-instrument", "--show-symbol-table", obj], 300, "symbol table " + src)
        statics = {}
        for blk in st.split("\n\n"):
            m = re.search(r"^Symbol\.+: (.*)$", blk, re.M)
            f = re.search(r"^Flags\.+: (.*)$", blk, re.M)
            t = re.search(r"^Type\.+: (.*)$", blk, re.M)
            loc = re.search(r"^Location\.+: (.*)$", blk, re.M)
            if not (m and f and t):
                continue
            name = m.group(1).strip()
            if "static_lifetime" not in f.group(1) or name.startswith("__CPROVER") or "built-in" in (loc.group(1) if loc else ""):
                continue
            if not re.match(r"^[A-Za-z_][\w:$]*$", name):
                continue   # string literals etc.
            typ = t.group(1)
            if "(" in typ and ")(" not in typ and "[" not in typ and typ.rstrip().endswith(")") and "*" not in typ.split("(")[0]:
                continue   # functions
            statics[name] = {"type": typ, "local": "::" in name, "const": typ.lstrip().startswith("const ") or " const " in typ.split("[")[0],
                             "location": (loc.group(1) if loc else "").replace(sc.dir, "")}
        gf = core.run_tool(["goto-instrument", "--show-goto-functions", obj], 300, "goto functions " + src)
        cur = None
        for line in gf.splitlines():
            m = re.match(r"^([A-Za-z_][\w$]*) /\* (.*) \*/$", line)
            if m:
                cur = m.group(1)
                nfun += 1
                continue
            ins = line.strip()
            if not ins or cur is None or cur.startswith("__CPROVER"):
                continue
            m = re.match(r"^(ASSIGN|CALL|DECL|OTHER) (.*)$", ins)
            if not m:
                continue
            ninstr += 1
            kind, rest = m.group(1), m.group(2)
            if kind in ("ASSIGN", "CALL") and ":=" in rest:
                lhs = rest.split(":=")[0].strip()
                root = re.match(r"^[\(\*\s]*([A-Za-z_][\w:$]*)", lhs)
                if root and root.group(1) in statics and not lhs.lstrip().startswith("*"):
                    findings.append({"kind": "W", "file": src, "function": cur, "object": root.group(1),
                                     "what": "%s assigns the static-lifetime object %s" % (cur, root.group(1))})
            if kind == "CALL":
                callee = re.search(r"(?::=\s*)?([A-Za-z_][\w$]*)\(", rest.split(":=")[-1])
                if callee and callee.group(1) in GLOBAL_STATE_CALLS:
                    findings.append({"kind": "G", "file": src, "function": cur, "object": callee.group(1),
                                     "what": "%s calls %s (process-global state: %s)" % (cur, callee.group(1), GLOBAL_STATE_CALLS[callee.group(1)])})
                readonly_callee = callee and callee.group(1) in ("bsearch", "lfind", "strcmp", "strncmp", "strlen", "memcmp", "strdup", "xrl_strdup")
                for a in ([] if readonly_callee else re.finditer(r"(?:address_of\(|&)([A-Za-z_][\w:$]*)", rest)):
                    if a.group(1) in statics and not statics[a.group(1)]["const"] and not re.search(r"\(\*?\)?\(", statics[a.group(1)]["type"]):
                        findings.append({"kind": "A", "file": src, "function": cur, "object": a.group(1),
                                         "what": "%s hands the address of the mutable static %s to a callee" % (cur, a.group(1))})
        for name, inf in statics.items():
            if inf["local"] and not inf["const"]:
                findings.append({"kind": "L", "file": src, "function": name.split("::")[0], "object": name,
                                 "what": "%s declares the mutable function-local static %s" % (name.split("::")[0], name)})
    # de-duplicate
    seen = set()
    out = []
    for f in findings:
        k = (f["kind"], f["file"], f["function"], f["object"])
        if k not in seen:
            seen.add(k)
            out.append(f)
    return out, {"functions": nfun, "instructions": ninstr}


def as_audits(findings, stats):
    """audit records for main.py: one per finding (status failed) or a single passed record"""
    if not findings:
        return [{"name": "scan.static_state", "status": "passed", "violating_cells": 0,
                 "detail": "no write to / mutable local static / escaping address of / global-state libc call in %d functions, %d instructions" % (stats["functions"], stats["instructions"])}]
    out = [{"name": "scan.%s.%s.%s" % (f["kind"], f["function"], f["object"]), "status": "failed", "violating_cells": 1, "detail": f["what"] + " [" + f["file"] + "]"}
           for f in findings]
    return out
