#!/usr/bin/env python3
"""Validate MANIFEST.json and evidence/*.json against the schemas (uses the tooling venv)."""
import json, sys, glob
import jsonschema
ok = True
jsonschema.validate(json.load(open('/verif/MANIFEST.json')), json.load(open('/root/.vp/MANIFEST.schema.json')))
es = json.load(open('/root/.vp/EVIDENCE.schema.json'))
for f in sorted(glob.glob('/verif/evidence/*.json')):
    try:
        jsonschema.validate(json.load(open(f)), es)
    except Exception as e:
        ok = False
        print("INVALID", f, str(e)[:300])
print("valid" if ok else "INVALID")
sys.exit(0 if ok else 1)
