#!/bin/sh
# run the owning property's quick check against every seeded change, in a scratch worktree of /repo HEAD (XRLV_REPO)
# usage: tools_seeded_all.sh [id ...]     results -> /verif/seeded/<id>/detect.txt
W=/tmp/mutrepo
git -C /repo worktree remove --force $W 2>/dev/null; git -C /repo worktree prune
git -C /repo worktree add -q --detach $W HEAD || exit 1
mkdir -p $W/_build && cp /repo/_build/config.h $W/_build/
ids="$@"; [ -z "$ids" ] && ids=$(ls /verif/seeded)
for id in $ids; do
  prop=${id%-*}
  cd $W && git checkout -q -- . 
  if ! git apply --check /verif/seeded/$id/patch.diff 2>/dev/null; then echo "$id: patch does not apply to HEAD" | tee /verif/seeded/$id/detect.txt; continue; fi
  git apply /verif/seeded/$id/patch.diff
  props="$prop"; [ -f /verif/seeded/$id/also.txt ] && props="$prop $(cat /verif/seeded/$id/also.txt)"
  out=""
  for p in $props; do
    XRLV_REPO=$W /verif/check $p > /tmp/seeded-$id-$p.log 2>&1; rc=$?
    nv=$(grep -c '^VIOLATION' /tmp/seeded-$id-$p.log)
    first=$(grep '^VIOLATION' /tmp/seeded-$id-$p.log | head -1 | sed 's/replay=[^ ]* //' | cut -c1-220)
    out="$out [$p: exit $rc, $nv VIOLATION lines] $first"
  done
  git checkout -q -- .
  echo "$id:$out" | tee /verif/seeded/$id/detect.txt
done
cd / && git -C /repo worktree remove --force $W
