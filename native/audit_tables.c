/* K4: TABLES_WF evaluated exhaustively on the tables built from the current tree (the real pr_data output).
 * Prints one line per check:  AUDIT <name> PASS|FAIL <count> <first failing cell>.   Assumption audit, never proof. */
#include <stdio.h>
#include <math.h>
#include <string.h>
#include "config.h"
#include "xraylib.h"
#include "xrayglob.h"

static int nfail_total;
#define BEGIN(name) { const char *cname = name; long nf = 0; char first[160] = "";
#define BAD(...) do { if (nf++ == 0) snprintf(first, sizeof first, __VA_ARGS__); } while (0)
#define END() printf("AUDIT %s %s %ld %s\n", cname, nf ? "FAIL" : "PASS", nf, first); if (nf) nfail_total++; }
#define FIN(x) (!isnan(x) && !isinf(x))

static void scalar2(const char *name, const double *t, int cols, int nonneg) {
  int Z, c;
  BEGIN(name)
  for (Z = 0; Z <= ZMAX; Z++) for (c = 0; c < cols; c++) {
    double v = t[Z * cols + c];
    if (!FIN(v)) BAD("Z=%d col=%d not finite", Z, c);
    else if (nonneg && v < 0.0) BAD("Z=%d col=%d negative %g", Z, c, v);
  }
  END()
}
static void spline(const char *name, const int *n, double **x, double **y, double **y2) {
  int Z, i;
  BEGIN(name)
  for (Z = 0; Z <= ZMAX; Z++) {
    if (n[Z] < 0) continue;
    if (n[Z] < 2 || !x[Z] || !y[Z] || !y2[Z]) { BAD("Z=%d N=%d or missing array", Z, n[Z]); continue; }
    for (i = 0; i < n[Z]; i++) {
      if (!FIN(x[Z][i]) || !FIN(y[Z][i]) || !FIN(y2[Z][i])) BAD("Z=%d i=%d not finite", Z, i);
      if (i > 0 && !(x[Z][i] >= x[Z][i-1])) BAD("Z=%d i=%d abscissae decrease (%g after %g)", Z, i, x[Z][i], x[Z][i-1]);
    }
  }
  END()
}
#define SL(l) (-(l) - 1)

int main(void) {
  int Z, s, i;
  scalar2("scalar.AtomicWeight_arr.finite", AtomicWeight_arr, 1, 0);
  scalar2("scalar.ElementDensity_arr.finite", ElementDensity_arr, 1, 0);
  scalar2("scalar.EdgeEnergy_arr.finite", &EdgeEnergy_arr[0][0], SHELLNUM, 0);
  scalar2("scalar.LineEnergy_arr.finite_nonneg", &LineEnergy_arr[0][0], LINENUM, 1);
  scalar2("scalar.FluorYield_arr.finite", &FluorYield_arr[0][0], SHELLNUM, 0);
  scalar2("scalar.JumpFactor_arr.finite", &JumpFactor_arr[0][0], SHELLNUM, 0);
  scalar2("scalar.CosKron_arr.finite_nonneg", &CosKron_arr[0][0], TRANSNUM, 1);
  scalar2("scalar.RadRate_arr.finite_nonneg", &RadRate_arr[0][0], LINENUM, 1);
  scalar2("scalar.AtomicLevelWidth_arr.finite", &AtomicLevelWidth_arr[0][0], SHELLNUM, 0);
  scalar2("scalar.Electron_Config_Kissel.finite", &Electron_Config_Kissel[0][0], SHELLNUM_K, 0);
  scalar2("scalar.Auger_Rates.finite", &Auger_Rates[0][0], AUGERNUM, 0);
  scalar2("scalar.Auger_Yields.finite", &Auger_Yields[0][0], SHELLNUM_A, 0);
  spline("spline.Photo", NE_Photo, E_Photo_arr, CS_Photo_arr, CS_Photo_arr2);
  spline("spline.Rayl", NE_Rayl, E_Rayl_arr, CS_Rayl_arr, CS_Rayl_arr2);
  spline("spline.Compt", NE_Compt, E_Compt_arr, CS_Compt_arr, CS_Compt_arr2);
  spline("spline.Energy", NE_Energy, E_Energy_arr, CS_Energy_arr, CS_Energy_arr2);
  spline("spline.Fi", NE_Fi, E_Fi_arr, Fi_arr, Fi_arr2);
  spline("spline.Fii", NE_Fii, E_Fii_arr, Fii_arr, Fii_arr2);
  BEGIN("spline.FF_SF.present_means_at_least_2")
  for (Z = 0; Z <= ZMAX; Z++) {
    if (Nq_Rayl[Z] > 0 && (Nq_Rayl[Z] < 2 || !q_Rayl_arr[Z] || !FF_Rayl_arr[Z] || !FF_Rayl_arr2[Z])) BAD("FF Z=%d N=%d", Z, Nq_Rayl[Z]);
    if (Nq_Compt[Z] > 0 && (Nq_Compt[Z] < 2 || !q_Compt_arr[Z] || !SF_Compt_arr[Z] || !SF_Compt_arr2[Z])) BAD("SF Z=%d N=%d", Z, Nq_Compt[Z]);
    if (Nq_Rayl[Z] > 0) for (i = 1; i < Nq_Rayl[Z]; i++) if (!(q_Rayl_arr[Z][i] > q_Rayl_arr[Z][i-1])) BAD("FF Z=%d i=%d not increasing", Z, i);
    if (Nq_Compt[Z] > 0) for (i = 1; i < Nq_Compt[Z]; i++) if (!(q_Compt_arr[Z][i] > q_Compt_arr[Z][i-1])) BAD("SF Z=%d i=%d not increasing", Z, i);
  }
  END()
  BEGIN("compton.shape")
  for (Z = 0; Z <= ZMAX; Z++) {
    int n = NShells_ComptonProfiles[Z];
    if (n < 0) continue;
    if (n < 1 || n > SHELLNUM_C || !UOCCUP_ComptonProfiles[Z]) { BAD("Z=%d NShells=%d", Z, n); continue; }
    if (Npz_ComptonProfiles[Z] < 2 || !pz_ComptonProfiles[Z] || !Total_ComptonProfiles[Z] || !Total_ComptonProfiles2[Z]) BAD("Z=%d Npz=%d", Z, Npz_ComptonProfiles[Z]);
    for (s = 0; s < n; s++) {
      double u = UOCCUP_ComptonProfiles[Z][s];
      if (!FIN(u) || u < 0.0) BAD("Z=%d shell=%d occupancy %g", Z, s, u);
      if (u > 0.0 && (!Partial_ComptonProfiles[Z][s] || !Partial_ComptonProfiles2[Z][s])) BAD("Z=%d shell=%d occupied but no partial profile", Z, s);
    }
  }
  END()
  BEGIN("scalar.AtomicWeight_arr.absent_or_in_1_1000")
  for (Z = 0; Z <= ZMAX; Z++) if (!(AtomicWeight_arr[Z] < 1000.0) || (AtomicWeight_arr[Z] > 0.0 && AtomicWeight_arr[Z] < 1.0)) BAD("Z=%d atomic weight %g", Z, AtomicWeight_arr[Z]);
  END()
  BEGIN("cross.form_factor_implies_atomic_weight")
  for (Z = 1; Z <= ZMAX; Z++) {
    if (Nq_Rayl[Z] > 0 && !(AtomicWeight_arr[Z] > 0.0)) BAD("Z=%d has a form factor table but no atomic weight", Z);
    if (Nq_Compt[Z] > 0 && !(AtomicWeight_arr[Z] > 0.0)) BAD("Z=%d has a scattering function table but no atomic weight", Z);
  }
  END()
  BEGIN("cross.kissel_implies_atomic_weight")
  for (Z = 1; Z <= ZMAX; Z++) {
    int any = NE_Photo_Total_Kissel[Z] >= 0;
    for (s = 0; s < SHELLNUM_K; s++) if (Electron_Config_Kissel[Z][s] >= 1.0E-06) any = 1;
    if (any && !(AtomicWeight_arr[Z] > 0.0)) BAD("Z=%d has Kissel data but no atomic weight", Z);
  }
  END()
  BEGIN("cross.kissel_occupied_shell_below_SHELLNUM")
  /* CSb_Photo_Partial indexes the 28-column EdgeEnergy_arr with Kissel shells up to 30 */
  for (Z = 1; Z <= ZMAX; Z++) for (s = SHELLNUM; s < SHELLNUM_K; s++)
    if (Electron_Config_Kissel[Z][s] >= 1.0E-06) BAD("Z=%d Kissel shell %d occupied (beyond the %d edge-energy columns)", Z, s, SHELLNUM);
  END()
  BEGIN("cross.kissel_partial_tables_present")
  for (Z = 1; Z <= ZMAX; Z++) for (s = 0; s < SHELLNUM && s < SHELLNUM_K; s++)
    if (Electron_Config_Kissel[Z][s] >= 1.0E-06 && EdgeEnergy_arr[Z][s] > 0.0) {
      int n = NE_Photo_Partial_Kissel[Z][s];
      if (n < 2 || !E_Photo_Partial_Kissel[Z][s] || !Photo_Partial_Kissel[Z][s] || !Photo_Partial_Kissel2[Z][s]) BAD("Z=%d shell=%d occupied with edge but NE=%d", Z, s, n);
    }
  END()
  BEGIN("lines.KP5_rate_is_zero")
  for (Z = 0; Z <= ZMAX; Z++) if (RadRate_arr[Z][SL(KP5_LINE)] != 0.0) BAD("Z=%d RadRate[KP5]=%g", Z, RadRate_arr[Z][SL(KP5_LINE)]);
  END()
  BEGIN("rates.unit_interval")
  for (Z = 0; Z <= ZMAX; Z++) {
    for (i = 0; i < LINENUM; i++) if (RadRate_arr[Z][i] > 1.0 + 1e-9) BAD("Z=%d RadRate[%d]=%g > 1", Z, i, RadRate_arr[Z][i]);
    for (i = 0; i < SHELLNUM; i++) if (FluorYield_arr[Z][i] > 1.0 + 1e-9) BAD("Z=%d FluorYield[%d]=%g > 1", Z, i, FluorYield_arr[Z][i]);
    for (i = 0; i < TRANSNUM; i++) if (CosKron_arr[Z][i] > 1.0 + 1e-9) BAD("Z=%d CosKron[%d]=%g > 1", Z, i, CosKron_arr[Z][i]);
  }
  END()
  printf("AUDIT-SUMMARY failed_checks=%d\n", nfail_total);
  return 0;
}
