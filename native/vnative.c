/* Native side of the harness vocabulary (vh.h): replays a CBMC counterexample against the real
 * library, or sweeps the argument space of the harness, evaluating the same assertions.
 *
 *   driver --replay <file>   inputs are taken by name from <file> (lines "name int <v>" / "name double <hexfloat>")
 *   driver --sweep <seed>    odometer over the domain of every requested input
 * exit 0: no assertion failed; exit 3: at least one failed (first failures printed);
 */
#include <stdio.h>
#include <stdlib.h>
#include <string.h>
#include <math.h>
#include "vh.h"

void VN_ENTRY(void);

#define MAXV 32
static int mode_replay;
static struct { char name[64]; int kind; long idx; long size; } vars[MAXV];
static int nvars, cursor;
static struct { char name[64]; int isd; long iv; double dv; } rep[256];
static int nrep;
static unsigned long long rng;
static long evals, skipped, fails, canaries_hit;
static int cur_skipped;
static long max_evals = 3000000;
static const char *failnames[64]; static long failcount[64]; static int nfailnames;

static double energies[64]; static int nenergies;
static double doubles_[64]; static int ndoubles;
static double angles[32]; static int nangles;

static double rnd01(void){ rng = rng*6364136223846793005ULL + 1442695040888963407ULL; return (double)(rng>>11) / 9007199254740992.0; }

static void init_grids(unsigned long long seed){
  int i; rng = seed*2654435761ULL + 12345;
  double fixedE[] = {-1.0, 0.0, 1e-9, 0.001, 0.0999, 0.1, 0.5, 1.0, 1.0721, 2.5, 5.0, 8.979, 10.0, 20.0, 29.2, 50.0, 88.0, 100.0, 115.606, 200.0, 500.0, 800.0, 1000.0, 1000.1, 1e5, 1e300};
  for (i = 0; i < (int)(sizeof fixedE/sizeof fixedE[0]); i++) energies[nenergies++] = fixedE[i];
  for (i = 0; i < 10; i++) energies[nenergies++] = exp(log(0.1) + rnd01()*(log(1000.0)-log(0.1)));
  double fixedD[] = {-1e300, -10.0, -1.0, -1e-12, 0.0, 1e-300, 1e-12, 1e-3, 0.1, 0.5, 1.0, 1.5, 2.0, 3.14159, 10.0, 100.0, 1e4, 1e9, 1e300};
  for (i = 0; i < (int)(sizeof fixedD/sizeof fixedD[0]); i++) doubles_[ndoubles++] = fixedD[i];
  for (i = 0; i < 6; i++) doubles_[ndoubles++] = (rnd01()-0.3)*20.0;
  double fixedA[] = {-3.2, -1.0, 0.0, 1e-8, 0.3, 0.7853981633974483, 1.0, 1.5707963267948966, 2.0, 3.0, 3.141592653589793, 4.0, 6.283185307179586, 7.0};
  for (i = 0; i < (int)(sizeof fixedA/sizeof fixedA[0]); i++) angles[nangles++] = fixedA[i];
  for (i = 0; i < 4; i++) angles[nangles++] = rnd01()*3.141592653589793;
}

static long dom_size(int kind){
  switch (kind){
    case VK_Z: return 129;       /* -3..125 */
    case VK_SHELL: return 36;    /* -3..32 */
    case VK_LINE: return 392;    /* -388..3 */
    case VK_TRANS: return 20;    /* -3..16 */
    case VK_AUGER: return 1004;  /* -3..1000 */
    case VK_INT: return 46;      /* -3..40, INT_MIN, INT_MAX */
    case VK_IDX: return 200;     /* -5..194 */
    case VK_BOOL: return 2;
    case VK_ENERGY: return nenergies;
    case VK_DOUBLE: return ndoubles;
    case VK_ANGLE: return nangles;
    case VK_SMALLPOS: return 6;
  }
  return 1;
}
static long int_value(int kind, long i){
  switch (kind){
    case VK_Z: return i-3; case VK_SHELL: return i-3; case VK_LINE: return i-388; case VK_TRANS: return i-3;
    case VK_AUGER: return i-3; case VK_BOOL: return i; case VK_IDX: return i-5; case VK_SMALLPOS: return i;
    case VK_INT: if (i==44) return -2147483647-1; if (i==45) return 2147483647; return i-3;
  }
  return 0;
}
static double dbl_value(int kind, long i){
  switch (kind){ case VK_ENERGY: return energies[i]; case VK_ANGLE: return angles[i]; default: return doubles_[i]; }
}

static int slot(const char *name, int kind){
  int p = cursor++;
  if (p >= MAXV) { fprintf(stderr, "too many inputs\n"); exit(4); }
  if (p >= nvars) { strncpy(vars[p].name, name, 63); vars[p].kind = kind; vars[p].idx = 0; vars[p].size = dom_size(kind); nvars = p+1; }
  return p;
}
int vn_int(const char *name, int kind){
  int i;
  if (mode_replay){ for (i=0;i<nrep;i++) if (!strcmp(rep[i].name,name)) return (int)(rep[i].isd ? (long)rep[i].dv : rep[i].iv); return 0; }
  i = slot(name, kind); return (int)int_value(kind, vars[i].idx);
}
double vn_double(const char *name, int kind){
  int i;
  if (mode_replay){ for (i=0;i<nrep;i++) if (!strcmp(rep[i].name,name)) return rep[i].isd ? rep[i].dv : (double)rep[i].iv; return 0.0; }
  i = slot(name, kind); return dbl_value(kind, vars[i].idx);
}
static void print_inputs(FILE *f){
  int i;
  if (mode_replay){ for (i=0;i<nrep;i++){ if (rep[i].isd) fprintf(f," %s=%.17g",rep[i].name,rep[i].dv); else fprintf(f," %s=%ld",rep[i].name,rep[i].iv);} return; }
  for (i=0;i<cursor && i<nvars;i++){
    if (vars[i].kind==VK_ENERGY||vars[i].kind==VK_DOUBLE||vars[i].kind==VK_ANGLE) fprintf(f," %s=%.17g",vars[i].name,dbl_value(vars[i].kind,vars[i].idx));
    else fprintf(f," %s=%ld",vars[i].name,int_value(vars[i].kind,vars[i].idx));
  }
}
void vn_assert(int ok, const char *name){
  int i;
  if (ok) return;
  fails++;
  for (i=0;i<nfailnames;i++) if (!strcmp(failnames[i],name)) break;
  if (i==nfailnames && nfailnames<64){ failnames[nfailnames]=name; failcount[nfailnames]=0; nfailnames++; }
  if (i<64){ if (failcount[i]++ < 5){ printf("FAIL obligation=\"%s\" inputs:", name); print_inputs(stdout); printf("\n"); } }
}
void vn_canary(const char *name){ (void)name; canaries_hit++; }
void vn_skip(void){ cur_skipped = 1; }

static int advance(void){
  int i = (cursor < nvars ? cursor : nvars) - 1;
  while (i >= 0){
    if (++vars[i].idx < vars[i].size){ nvars = i+1; return 1; }
    i--;
  }
  return 0;
}

int main(int argc, char **argv){
  unsigned long long seed = 1;
  int i;
  if (argc >= 3 && !strcmp(argv[1],"--replay")){
    FILE *f = fopen(argv[2],"r"); char nm[64], ty[16], val[128];
    if (!f){ perror(argv[2]); return 4; }
    mode_replay = 1;
    while (nrep < 256 && fscanf(f,"%63s %15s %127s",nm,ty,val)==3){
      strcpy(rep[nrep].name,nm);
      if (!strcmp(ty,"double")){ rep[nrep].isd=1; rep[nrep].dv=strtod(val,NULL);} else { rep[nrep].isd=0; rep[nrep].iv=strtol(val,NULL,10);} 
      nrep++;
    }
    fclose(f);
  } else if (argc >= 3 && !strcmp(argv[1],"--sweep")) { seed = strtoull(argv[2],NULL,10); if (argc>=4) max_evals = atol(argv[3]); }
  else { fprintf(stderr,"usage: %s --replay file | --sweep seed [max]\n",argv[0]); return 4; }
  init_grids(seed);
  if (mode_replay){ VN_ENTRY(); evals=1; }
  else {
    do { cursor = 0; cur_skipped = 0; VN_ENTRY(); evals++; if (cur_skipped) skipped++; } while (advance() && evals < max_evals);
  }
  printf("SUMMARY evaluations=%ld skipped=%ld failures=%ld canaries=%ld\n", evals, skipped, fails, canaries_hit);
  for (i=0;i<nfailnames;i++) printf("FAILED-OBLIGATION \"%s\" count=%ld\n", failnames[i], failcount[i]);
  return fails ? 3 : 0;
}
