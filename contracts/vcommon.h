/* Shared vocabulary of the contracts and lemma harnesses.
 *
 * The same text is compiled twice:
 *   -DVERIF_CBMC : by goto-cc, as CBMC contracts / proof harnesses (nondeterministic inputs, UF leaves)
 *   (native)     : by gcc against the library freshly built from /repo, as the replay / sweep driver
 *                  that evaluates the *same* post-condition or lemma on the real code.
 */
#ifndef VCOMMON_H
#define VCOMMON_H
#include "config.h"
#include <stddef.h>
#include <stdlib.h>
#include <string.h>
#include <math.h>
#include "xraylib.h"
#include "xrayglob.h"
#include "xraylib-error-private.h"

#ifdef VERIF_CBMC
#define V_FRESH(p, n) __CPROVER_is_fresh((p), (n))
#define V_ISNAN(x) __CPROVER_isnand(x)
#define V_ISINF(x) __CPROVER_isinfd(x)
#define V_OLD(x) __CPROVER_old(x)
#else
#define V_FRESH(p, n) ((p) != NULL)
#define V_ISNAN(x) isnan(x)
#define V_ISINF(x) isinf(x)
#endif
#define V_FINITE(x) (!V_ISNAN(x) && !V_ISINF(x))
/* NaN-aware equality used by every value lemma (never a bare ==) */
#define SAME(a, b) (((a) == (b)) || (V_ISNAN(a) && V_ISNAN(b)))
#define IMPLIES(a, b) (!(a) || (b))

/* error-slot protocol (C03) */
#define ERR_SLOT(error) ((error) == NULL || (V_FRESH((error), sizeof(*(error))) && *(error) == NULL))
#define ERR_NONE(error) ((error) == NULL || *(error) == NULL)
#define ERR_CODE_OK(c) ((c) >= XRL_ERROR_MEMORY && (c) <= XRL_ERROR_RUNTIME)
#define ERR_IS(error, c) ((error) == NULL || (*(error) != NULL && (*(error))->code == (c) && (*(error))->message != NULL))
#define ERR_ANY(error) ((error) == NULL || (*(error) != NULL && ERR_CODE_OK((*(error))->code) && \
                          (*(error))->message != NULL && (*(error))->message[0] != 0))

#define Z_OK(Z) ((Z) >= 1 && (Z) <= ZMAX)

#endif
