/* Contracts of the error-object code (src/xraylib-error.c).
 *
 * The setter's requires clause "*err == NULL" is what turns "no call ever stores an error over an
 * existing one" (C03) into a call-site obligation of every function that is verified against it.  */
#ifndef C_ERROR_H
#define C_ERROR_H
#include "vcommon.h"
#ifdef VERIF_CBMC

void xrl_set_error_literal(xrl_error **err, xrl_error_code code, const char *message)
__CPROVER_requires(err == NULL || *err == NULL)                 /* never over an existing error */
__CPROVER_requires(message != NULL && message[0] != 0)           /* non-empty message */
__CPROVER_requires(ERR_CODE_OK(code))
__CPROVER_assigns(err != NULL: *err)
__CPROVER_ensures(err != NULL ==> (*err != NULL && __CPROVER_is_fresh(*err, sizeof(xrl_error)) && (*err)->code == code))

__CPROVER_ensures(err != NULL ==> (*err)->message != NULL)
;
#endif
#endif
