/* K1 protocol contracts of the closed-form scattering functions (src/scattering.c, src/polarized.c): C03.
 * They never touch a table; they fail exactly for a non-positive energy.  These are the protocol facts the UF
 * stubs of these functions carry in the C05 lemmas (vlib/specgen.py OK_FACTS).                              */
#ifndef C_CLOSED_H
#define C_CLOSED_H
#include "vcommon.h"
#define POST_ENERGY_PROTOCOL(ret, E, error) \
  (((E) > 0.0) ? ERR_NONE(error) : ((ret) == 0.0 && ERR_IS(error, XRL_ERROR_INVALID_ARGUMENT)))
#define POST_NEVER_FAILS(ret, error) ERR_NONE(error)
#ifdef VERIF_CBMC
#define CLOSED(decl, post) decl __CPROVER_requires(ERR_SLOT(error)) __CPROVER_assigns(error != NULL: *error) __CPROVER_ensures(post);
CLOSED(double DCS_Thoms(double theta, xrl_error **error), POST_NEVER_FAILS(__CPROVER_return_value, error))
CLOSED(double DCSP_Thoms(double theta, double phi, xrl_error **error), POST_NEVER_FAILS(__CPROVER_return_value, error))
CLOSED(double DCS_KN(double E, double theta, xrl_error **error), POST_ENERGY_PROTOCOL(__CPROVER_return_value, E, error))
CLOSED(double DCSP_KN(double E, double theta, double phi, xrl_error **error), POST_ENERGY_PROTOCOL(__CPROVER_return_value, E, error))
CLOSED(double MomentTransf(double E, double theta, xrl_error **error), POST_ENERGY_PROTOCOL(__CPROVER_return_value, E, error))
CLOSED(double CS_KN(double E, xrl_error **error), POST_ENERGY_PROTOCOL(__CPROVER_return_value, E, error))
CLOSED(double ComptonEnergy(double E0, double theta, xrl_error **error), POST_ENERGY_PROTOCOL(__CPROVER_return_value, E0, error))
#endif
#endif
