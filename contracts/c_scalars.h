/* K1 contracts of the tabulated scalar accessors (C01, protocol part of C03, frame part of C16).
 *
 * Post-condition, taken from the property statement: with slot(m) defined independently of the code
 * (m for shells / transitions / Auger macros, -m-1 for single lines) and the range given by the
 * declared dimension of the table,
 *     in range and T[Z][slot] > 0  ?  ret == T[Z][slot] and no error
 *                                  :  ret == 0 and exactly one XRL_ERROR_INVALID_ARGUMENT error.
 * TABLES_WF instance used: the queried cell is not NaN.                                           */
#ifndef C_SCALARS_H
#define C_SCALARS_H
#include "vcommon.h"

#define NCOLS(T) ((int)(sizeof((T)[0]) / sizeof((T)[0][0])))
#define SPEC_OK ERR_NONE
#define SPEC_FAIL(ret, error) ((ret) == 0.0 && ERR_IS(error, XRL_ERROR_INVALID_ARGUMENT))

/* one-dimensional tables */
#define POST_TABLE1(ret, Z, error, T) \
  ((Z_OK(Z) && (T)[Z] > 0.0) ? ((ret) == (T)[Z] && SPEC_OK(error)) : SPEC_FAIL(ret, error))
#define WF_TABLE1(Z, T) IMPLIES(Z_OK(Z), !V_ISNAN((T)[Z]))

/* two-dimensional tables, slot = column index lo..NCOLS-1 */
#define IN2(Z, s, lo, T) (Z_OK(Z) && (s) >= (lo) && (s) < NCOLS(T))
#define POST_TABLE2(ret, Z, s, lo, error, T) \
  ((IN2(Z, s, lo, T) && (T)[Z][s] > 0.0) ? ((ret) == (T)[Z][s] && SPEC_OK(error)) : SPEC_FAIL(ret, error))
#define WF_TABLE2(Z, s, lo, T) IMPLIES(IN2(Z, s, lo, T), !V_ISNAN((T)[Z][s]))

#define POST_AtomicWeight(ret, Z, error)        POST_TABLE1(ret, Z, error, AtomicWeight_arr)
#define POST_ElementDensity(ret, Z, error)      POST_TABLE1(ret, Z, error, ElementDensity_arr)
#define POST_EdgeEnergy(ret, Z, s, error)       POST_TABLE2(ret, Z, s, 0, error, EdgeEnergy_arr)
#define POST_FluorYield(ret, Z, s, error)       POST_TABLE2(ret, Z, s, 0, error, FluorYield_arr)
#define POST_JumpFactor(ret, Z, s, error)       POST_TABLE2(ret, Z, s, 0, error, JumpFactor_arr)
#define POST_AtomicLevelWidth(ret, Z, s, error) POST_TABLE2(ret, Z, s, 0, error, AtomicLevelWidth_arr)
#define POST_ElectronConfig(ret, Z, s, error)   POST_TABLE2(ret, Z, s, 0, error, Electron_Config_Kissel)
/* Coster-Kronig macros start at 1 (FL12_TRANS); column 0 of the table is unused */
#define POST_CosKronTransProb(ret, Z, t, error) POST_TABLE2(ret, Z, t, 1, error, CosKron_arr)
#define POST_AugerRate(ret, Z, a, error)        POST_TABLE2(ret, Z, a, 0, error, Auger_Rates)
#define POST_AugerYield(ret, Z, s, error)       POST_TABLE2(ret, Z, s, 0, error, Auger_Yields)

/* Biggs occupancy: per-element array of NShells_ComptonProfiles[Z] entries */
#define BIGGS_IN(Z, s) (Z_OK(Z) && NShells_ComptonProfiles[Z] >= 0 && (s) >= 0 && (s) < NShells_ComptonProfiles[Z])
#define POST_ElectronConfig_Biggs(ret, Z, s, error) \
  ((BIGGS_IN(Z, s) && UOCCUP_ComptonProfiles[Z][s] > 0.0) ? ((ret) == UOCCUP_ComptonProfiles[Z][s] && SPEC_OK(error)) : SPEC_FAIL(ret, error))

#ifdef VERIF_CBMC
#define SCALAR1(f, T) double f(int Z, xrl_error **error) \
  __CPROVER_requires(ERR_SLOT(error)) __CPROVER_requires(WF_TABLE1(Z, T)) \
  __CPROVER_assigns(error != NULL: *error) \
  __CPROVER_ensures(POST_##f(__CPROVER_return_value, Z, error));
#define SCALAR2(f, arg, lo, T) double f(int Z, int arg, xrl_error **error) \
  __CPROVER_requires(ERR_SLOT(error)) __CPROVER_requires(WF_TABLE2(Z, arg, lo, T)) \
  __CPROVER_assigns(error != NULL: *error) \
  __CPROVER_ensures(POST_##f(__CPROVER_return_value, Z, arg, error));

SCALAR1(AtomicWeight, AtomicWeight_arr)
SCALAR1(ElementDensity, ElementDensity_arr)
SCALAR2(EdgeEnergy, shell, 0, EdgeEnergy_arr)
SCALAR2(FluorYield, shell, 0, FluorYield_arr)
SCALAR2(JumpFactor, shell, 0, JumpFactor_arr)
SCALAR2(AtomicLevelWidth, shell, 0, AtomicLevelWidth_arr)
SCALAR2(ElectronConfig, shell, 0, Electron_Config_Kissel)
SCALAR2(CosKronTransProb, trans, 1, CosKron_arr)
SCALAR2(AugerRate, auger_trans, 0, Auger_Rates)
SCALAR2(AugerYield, shell, 0, Auger_Yields)

double ElectronConfig_Biggs(int Z, int shell, xrl_error **error)
__CPROVER_requires(ERR_SLOT(error))
/* TABLES_WF (Compton profiles): a present element has 1..SHELLNUM_C occupancies, none of them NaN */
__CPROVER_requires(IMPLIES(Z_OK(Z) && NShells_ComptonProfiles[Z] >= 0,
     NShells_ComptonProfiles[Z] >= 1 && NShells_ComptonProfiles[Z] <= SHELLNUM_C &&
     __CPROVER_is_fresh(UOCCUP_ComptonProfiles[Z], sizeof(double) * NShells_ComptonProfiles[Z])))
__CPROVER_requires(IMPLIES(BIGGS_IN(Z, shell), UOCCUP_ComptonProfiles[Z][shell] >= 0.0)) /* occupancies are counts: not NaN, not negative */
__CPROVER_assigns(error != NULL: *error)
__CPROVER_ensures(POST_ElectronConfig_Biggs(__CPROVER_return_value, Z, shell, error));
#endif
#endif
