/* K1 contracts of the interpolating functions: memory safety under TABLES_WF, frame, error protocol (C04, C16, C03).
 * splint is replaced by its contract (the facts proved on the real splint by harness/h_splint.c): it reads only
 * xa[1..n], ya[1..n], y2a[1..n], writes *y and at most one error into an empty slot.                             */
#ifndef C_INTERP_H
#define C_INTERP_H
#include "vcommon.h"
#include "splint.h"
#ifdef VERIF_CBMC
int splint(double xa[], double ya[], double y2a[], int n, double x, double *y, xrl_error **error)
__CPROVER_requires(n >= 2)
__CPROVER_requires(__CPROVER_r_ok(xa + 1, n * sizeof(double)) && __CPROVER_r_ok(ya + 1, n * sizeof(double)) && __CPROVER_r_ok(y2a + 1, n * sizeof(double)))
__CPROVER_requires(__CPROVER_w_ok(y, sizeof(double)))
__CPROVER_requires(error == NULL || *error == NULL)
__CPROVER_assigns(*y; error != NULL: *error)
__CPROVER_ensures(__CPROVER_return_value == 0 || __CPROVER_return_value == 1)
__CPROVER_ensures(__CPROVER_return_value == 0 ==> (*y == 0.0 && (error == NULL || (*error != NULL && __CPROVER_is_fresh(*error, sizeof(xrl_error)) && (*error)->code == XRL_ERROR_INVALID_ARGUMENT && (*error)->message != NULL))))
__CPROVER_ensures(__CPROVER_return_value == 1 ==> (error == NULL || *error == NULL))
;
/* TABLES_WF instance at the queried Z: N < 0, or N >= 2 with three arrays of N doubles of their own */
#define WF_SPLINE(Z, N, X, Y, Y2) IMPLIES(Z_OK(Z) && (N)[Z] >= 0, (N)[Z] >= 2 && (N)[Z] <= 100000 && \
    __CPROVER_is_fresh((X)[Z], sizeof(double) * (N)[Z]) && __CPROVER_is_fresh((Y)[Z], sizeof(double) * (N)[Z]) && \
    __CPROVER_is_fresh((Y2)[Z], sizeof(double) * (N)[Z]))
#define POST_PROTOCOL(ret, error) (ERR_NONE(error) || ((ret) == 0.0 && ERR_IS(error, XRL_ERROR_INVALID_ARGUMENT)))
#define INTERP_CONTRACT(f, argdecl, N, X, Y, Y2, invalid) \
double f(int Z, argdecl, xrl_error **error) \
__CPROVER_requires(ERR_SLOT(error)) \
__CPROVER_requires(WF_SPLINE(Z, N, X, Y, Y2)) \
__CPROVER_assigns(error != NULL: *error) \
__CPROVER_ensures(POST_PROTOCOL(__CPROVER_return_value, error)) \
__CPROVER_ensures((invalid) ==> (__CPROVER_return_value == 0.0 && ERR_IS(error, XRL_ERROR_INVALID_ARGUMENT)));
INTERP_CONTRACT(CS_Photo, double E, NE_Photo, E_Photo_arr, CS_Photo_arr, CS_Photo_arr2, !Z_OK(Z) || NE_Photo[Z] < 0 || E <= 0.0)
INTERP_CONTRACT(CS_Rayl, double E, NE_Rayl, E_Rayl_arr, CS_Rayl_arr, CS_Rayl_arr2, !Z_OK(Z) || NE_Rayl[Z] < 0 || E <= 0.0)
INTERP_CONTRACT(CS_Compt, double E, NE_Compt, E_Compt_arr, CS_Compt_arr, CS_Compt_arr2, !Z_OK(Z) || NE_Compt[Z] < 0 || E <= 0.0)
INTERP_CONTRACT(CS_Energy, double E, NE_Energy, E_Energy_arr, CS_Energy_arr, CS_Energy_arr2, !Z_OK(Z) || Z > 92 || NE_Energy[Z] < 0 || E <= 0.0)
INTERP_CONTRACT(Fi, double E, NE_Fi, E_Fi_arr, Fi_arr, Fi_arr2, !Z_OK(Z) || NE_Fi[Z] < 0 || E <= 0.0)
INTERP_CONTRACT(Fii, double E, NE_Fii, E_Fii_arr, Fii_arr, Fii_arr2, !Z_OK(Z) || NE_Fii[Z] < 0 || E <= 0.0)
#define WF_SPLINE_POS(Z, N, X, Y, Y2) IMPLIES(Z_OK(Z) && (N)[Z] > 0, (N)[Z] >= 2 && (N)[Z] <= 100000 && \
    __CPROVER_is_fresh((X)[Z], sizeof(double) * (N)[Z]) && __CPROVER_is_fresh((Y)[Z], sizeof(double) * (N)[Z]) && \
    __CPROVER_is_fresh((Y2)[Z], sizeof(double) * (N)[Z]))
double FF_Rayl(int Z, double q, xrl_error **error)
__CPROVER_requires(ERR_SLOT(error))
__CPROVER_requires(WF_SPLINE_POS(Z, Nq_Rayl, q_Rayl_arr, FF_Rayl_arr, FF_Rayl_arr2))
__CPROVER_assigns(error != NULL: *error)
__CPROVER_ensures(POST_PROTOCOL(__CPROVER_return_value, error))
__CPROVER_ensures((!Z_OK(Z) || Nq_Rayl[Z] <= 0 || q < 0.0) ==> (__CPROVER_return_value == 0.0 && ERR_IS(error, XRL_ERROR_INVALID_ARGUMENT)));
double SF_Compt(int Z, double q, xrl_error **error)
__CPROVER_requires(ERR_SLOT(error))
__CPROVER_requires(WF_SPLINE_POS(Z, Nq_Compt, q_Compt_arr, SF_Compt_arr, SF_Compt_arr2))
__CPROVER_assigns(error != NULL: *error)
__CPROVER_ensures(POST_PROTOCOL(__CPROVER_return_value, error))
__CPROVER_ensures((!Z_OK(Z) || Nq_Compt[Z] <= 0 || !(q > 0.0)) ==> (__CPROVER_return_value == 0.0 && ERR_IS(error, XRL_ERROR_INVALID_ARGUMENT)));
double ComptonProfile(int Z, double pz, xrl_error **error)
__CPROVER_requires(ERR_SLOT(error))
__CPROVER_requires(IMPLIES(Z_OK(Z) && NShells_ComptonProfiles[Z] >= 0, Npz_ComptonProfiles[Z] >= 2 && Npz_ComptonProfiles[Z] <= 100000 &&
    __CPROVER_is_fresh(pz_ComptonProfiles[Z], sizeof(double) * Npz_ComptonProfiles[Z]) &&
    __CPROVER_is_fresh(Total_ComptonProfiles[Z], sizeof(double) * Npz_ComptonProfiles[Z]) &&
    __CPROVER_is_fresh(Total_ComptonProfiles2[Z], sizeof(double) * Npz_ComptonProfiles[Z])))
__CPROVER_assigns(error != NULL: *error)
__CPROVER_ensures(POST_PROTOCOL(__CPROVER_return_value, error))
__CPROVER_ensures((!Z_OK(Z) || NShells_ComptonProfiles[Z] < 0 || pz < 0.0) ==> (__CPROVER_return_value == 0.0 && ERR_IS(error, XRL_ERROR_INVALID_ARGUMENT)));
#endif
#endif
