/* K2 lemmas for LineEnergy (src/fluor_lines.c) and RadRate (src/radrate.c): C01 (single lines), C10 (groups).
 *
 * Real bodies of RadRate / LineEnergy / LineEnergyComposed; tables symbolic (nondet statics); the error
 * setter is the ghost stub; in the LineEnergy lemma RadRate, CS_FluorLine and EdgeEnergy are UF leaves,
 * i.e. "what the public function returns for these arguments" (their own contracts are proved elsewhere).
 * Group membership comes from gen/spec_lines.h (derived from macro names).                               */
#include "vh.h"
#include "vstub.h"
#include "leaves.h"
#include "spec_lines.h"

#define RR_CELL(Z, line) RadRate_arr[Z][SPEC_SLOT(line)]
#define LE_CELL(Z, line) LineEnergy_arr[Z][SPEC_SLOT(line)]
#define SLOT_OK(line) (SPEC_SLOT(line) >= 0 && SPEC_SLOT(line) < SPEC_NLINES)
#define IS_GROUP4(line) ((line) == KA_LINE || (line) == KB_LINE || (line) == LA_LINE || (line) == LB_LINE)

/* TABLES_WF instance: rates are numbers >= 0 */
#define WF_RATE(x) ((x) >= 0.0 && !V_ISINF(x))
#define WF_ENERGY(x) ((x) >= 0.0 && !V_ISINF(x))

/* -DFIXED_LINE=<macro>: the lemma for that one group macro; otherwise: every int that is not a group macro */
#ifdef FIXED_LINE
#define LINE_INPUT(line) int line = FIXED_LINE
#else
#define LINE_INPUT(line) ND_LINE(line); VASSUME(!IS_GROUP4(line) && doublet_index(line) < 0)
#endif
static int doublet_index(int line)
{
  int i;
  for (i = 0; i < SPEC_NDOUBLETS; i++) if (SPEC_DOUBLET[i].line == line) return i;
  return -1;
}

LEMMA(lemma_RadRate)
{
  ND_Z(Z); LINE_INPUT(line); ND_ERRSLOT(error);
  int i;
  double r;
  if (Z_OK(Z)) {
    for (i = 0; i < SPEC_NKA; i++) VASSUME(WF_RATE(RR_CELL(Z, SPEC_KA[i])));
    VASSUME(WF_RATE(RR_CELL(Z, SPEC_LA[0])) && WF_RATE(RR_CELL(Z, SPEC_LA[1])));
    if (SLOT_OK(line)) VASSUME(!V_ISNAN(RR_CELL(Z, line)));
  }
  GHOST_RESET();
  r = RadRate(Z, line, error);
  if (!Z_OK(Z)) {
    VCANARY("RadRate Z out of range");
    VASSERT(r == 0.0 && ONE_ERROR(error), "RadRate: Z out of range is an error");
  } else if (line == KA_LINE || line == KB_LINE) {
    /* K-alpha = sum of its members (by name KL1..KL3); K-beta = complement to one */
    double ka = 0.0;
    for (i = 0; i < SPEC_NKA; i++) ka += RR_CELL(Z, SPEC_KA[i]);
    if (line == KA_LINE) {
      VCANARY("RadRate KA");
      if (ka == 0.0) VASSERT(r == 0.0 && ONE_ERROR(error), "RadRate(KA): no member rate is an error");
      else VASSERT(SAME(r, ka) && NO_ERROR(error), "RadRate(KA) = sum of member rates");
    } else {
      VCANARY("RadRate KB");
      if (ka == 0.0 || ka == 1.0) VASSERT(r == 0.0 && ONE_ERROR(error), "RadRate(KB): undefined complement is an error");
      else VASSERT(SAME(r, 1.0 - ka) && NO_ERROR(error), "RadRate(KB) = 1 - RadRate(KA)");
    }
  } else if (line == LA_LINE) {
    double la = RR_CELL(Z, SPEC_LA[0]) + RR_CELL(Z, SPEC_LA[1]);
    VCANARY("RadRate LA");
    if (la == 0.0) VASSERT(r == 0.0 && ONE_ERROR(error), "RadRate(LA): no member rate is an error");
    else VASSERT(SAME(r, la) && NO_ERROR(error), "RadRate(LA) = sum of its two members");
  } else if (line == LB_LINE) {
    VASSERT(r == 0.0 && ONE_ERROR(error), "RadRate(LB) is rejected");
  } else if (SLOT_OK(line) && RR_CELL(Z, line) > 0.0) {
    VCANARY("RadRate single line with a record");
    VASSERT(r == RR_CELL(Z, line) && NO_ERROR(error), "RadRate: single line returns exactly the table value");
  } else {
    VCANARY("RadRate single line without record / outside macro range");
    VASSERT(r == 0.0 && ONE_ERROR(error), "RadRate: no positive record or macro out of range is an error");
  }
  VASSERT(error == NULL || *error == NULL || (*error)->code == XRL_ERROR_INVALID_ARGUMENT, "RadRate: error code is INVALID_ARGUMENT");
  ERRSLOT_DONE(error);
}

/* the public single-line energy, written from the C01 statement */
static double spec_single_energy(int Z, int line)
{
  if (line == KO_LINE) line = KO1_LINE;  /* C10: KO/KP energies are those of their first member line */
  if (line == KP_LINE) line = KP1_LINE;
  if (!Z_OK(Z) || !SLOT_OK(line)) return 0.0;
  /* "a positive record" is phrased as !(cell <= 0) so that the solver sees the same comparison as in the code
   * (equivalent under TABLES_WF: cells are not NaN) */
  if (LE_CELL(Z, line) <= 0.0) return 0.0;
  return LE_CELL(Z, line);
}

/* two-member group, from the statement: rate-weighted mean of the members that have an energy; without rates
 * the plain mean of the members that have an energy; 0 (= error) when no member has one */
static double spec_two_member(int Z, int m1, int m2)
{
  double e1 = spec_single_energy(Z, m1), e2 = spec_single_energy(Z, m2);
  /* LEAF_f is the public value: 0 when the call fails */
  double r1 = LEAF_RadRate(Z, m1), r2 = LEAF_RadRate(Z, m2);
  double w;
  if (e1 <= 0.0) r1 = 0.0;   /* a member without an energy does not take part */
  if (e2 <= 0.0) r2 = 0.0;
  w = e1 * r1 + e2 * r2;
  if (w > 0.0) return w / (r1 + r2);
  if (e1 > 0.0 && e2 > 0.0) return (e1 + e2) / 2.0;
  if (e1 > 0.0) return e1;
  if (e2 > 0.0) return e2;
  return 0.0;
}

/* public energy of a (single or two-member) line, as a group member sees it */
static double spec_member_energy(int Z, int m)
{
  int d = doublet_index(m);
  if (d >= 0) return spec_two_member(Z, SPEC_DOUBLET[d].m1, SPEC_DOUBLET[d].m2);
  return spec_single_energy(Z, m);
}

static void check_line_energy(int Z, int line, xrl_error **error)
{
  int i, d;
  double r;
  if (Z_OK(Z)) {
    /* TABLES_WF instances for the cells this query can read */
    if (line == KA_LINE) for (i = 0; i < SPEC_NKA; i++) VASSUME(WF_RATE(RR_CELL(Z, SPEC_KA[i])) && WF_ENERGY(LE_CELL(Z, SPEC_KA[i])));
    if (line == KB_LINE) for (i = 0; i < SPEC_NKB; i++) VASSUME(WF_RATE(RR_CELL(Z, SPEC_KB[i])) && WF_ENERGY(LE_CELL(Z, SPEC_KB[i])));
    if (SLOT_OK(line)) VASSUME(WF_ENERGY(LE_CELL(Z, line)));
    d = doublet_index(line);
    if (d >= 0) VASSUME(WF_ENERGY(LE_CELL(Z, SPEC_DOUBLET[d].m1)) && WF_ENERGY(LE_CELL(Z, SPEC_DOUBLET[d].m2)));
    if (line == LA_LINE) VASSUME(WF_ENERGY(LE_CELL(Z, SPEC_LA[0])) && WF_ENERGY(LE_CELL(Z, SPEC_LA[1])));
    if (line == LB_LINE) for (i = 0; i < SPEC_NLB; i++) VASSUME(WF_ENERGY(LE_CELL(Z, SPEC_LB[i].line)));
    VASSUME(WF_ENERGY(LE_CELL(Z, KO1_LINE)) && WF_ENERGY(LE_CELL(Z, KP1_LINE)));
  }
  GHOST_RESET();
  r = LineEnergy(Z, line, error);
  d = doublet_index(line);
  if (!Z_OK(Z)) {
    VCANARY("LineEnergy Z out of range");
    VASSERT(r == 0.0 && ONE_ERROR(error), "LineEnergy: Z out of range is an error");
  } else if (line == KA_LINE || line == KB_LINE) {
    /* rate-weighted mean over exactly the member lines that have an energy */
    double num = 0.0, den = 0.0, sumE = 0.0;
    int nE = 0;
    int n = (line == KA_LINE) ? SPEC_NKA : SPEC_NKB;
    for (i = 0; i < n; i++) {
      int m = (line == KA_LINE) ? SPEC_KA[i] : SPEC_KB[i];
      if (!(LE_CELL(Z, m) <= 0.0)) { nE++; sumE += LE_CELL(Z, m); den += RR_CELL(Z, m); num += LE_CELL(Z, m) * RR_CELL(Z, m); }
    }
    if (line == KA_LINE) VCANARY("LineEnergy KA"); else VCANARY("LineEnergy KB");
    if (den > 0.0) VASSERT(SAME(r, num / den) && NO_ERROR(error), "LineEnergy(KA/KB) = rate-weighted mean of exactly its members that have an energy");
    else if (nE > 0) VASSERT(SAME(r, sumE / nE) && NO_ERROR(error), "LineEnergy(KA/KB): no rates -> plain mean of the members that have an energy");
    else VASSERT(r == 0.0 && ONE_ERROR(error), "LineEnergy(KA/KB): no member with an energy is an error");
  } else if (line == LA_LINE || d >= 0) {
    /* two-member groups: members from the macro name; a member without an energy does not take part */
    int m1 = (line == LA_LINE) ? SPEC_LA[1] : SPEC_DOUBLET[d].m1;
    int m2 = (line == LA_LINE) ? SPEC_LA[0] : SPEC_DOUBLET[d].m2;
    double e1 = spec_single_energy(Z, m1), e2 = spec_single_energy(Z, m2);
    double r1 = LEAF_RadRate(Z, m1), r2 = LEAF_RadRate(Z, m2);
    double w;
    if (e1 <= 0.0) r1 = 0.0;
    if (e2 <= 0.0) r2 = 0.0;
    w = e1 * r1 + e2 * r2;
    VCANARY("LineEnergy two-member group");
    if (w > 0.0) VASSERT(SAME(r, w / (r1 + r2)) && NO_ERROR(error), "LineEnergy(doublet) = rate-weighted mean of exactly its two members");
    else if (e1 > 0.0 && e2 > 0.0) VASSERT(SAME(r, (e1 + e2) / 2.0) && NO_ERROR(error), "LineEnergy(doublet): no rates -> plain mean of the member energies");
    else if (e1 > 0.0) VASSERT(SAME(r, e1) && NO_ERROR(error), "LineEnergy(doublet): only the first member has an energy -> that energy");
    else if (e2 > 0.0) VASSERT(SAME(r, e2) && NO_ERROR(error), "LineEnergy(doublet): only the second member has an energy -> that energy");
    else VASSERT(r == 0.0 && ONE_ERROR(error), "LineEnergy(doublet): no member energy is an error");
  } else if (line == LB_LINE) {
    /* cross-section-weighted mean over the L-beta members that have an energy */
    double num = 0.0, den = 0.0;
    for (i = 0; i < SPEC_NLB; i++) {
      int m = SPEC_LB[i].line, sh = SPEC_LB[i].shell;
      double e = spec_member_energy(Z, m);
      if (!(e <= 0.0)) {
        double edge = LEAF_EdgeEnergy(Z, sh);
        double w = LEAF_CS_FluorLine(Z, m, edge + 0.1);
        den += w;
        num += e * w;
      }
    }
    VCANARY("LineEnergy LB");
    if (den > 0.0) VASSERT(SAME(r, num / den) && NO_ERROR(error), "LineEnergy(LB) = cross-section-weighted mean of its members that have an energy");
    else VASSERT(r == 0.0 && ONE_ERROR(error), "LineEnergy(LB): no member with an energy and a cross section is an error");
  } else {
    double e = spec_single_energy(Z, line);
    if (e > 0.0) {
      VCANARY("LineEnergy single line with a record");
      VASSERT(r == e && NO_ERROR(error), "LineEnergy: single line returns exactly the table value");
    } else {
      VCANARY("LineEnergy single line without record / outside macro range");
      VASSERT(r == 0.0 && ONE_ERROR(error), "LineEnergy: no positive record or macro out of range is an error");
    }
  }
  VASSERT(error == NULL || *error == NULL || (*error)->code == XRL_ERROR_INVALID_ARGUMENT, "LineEnergy: error code is INVALID_ARGUMENT");
}


LEMMA(lemma_LineEnergy)
{
  ND_Z(Z); LINE_INPUT(line); ND_ERRSLOT(error);
#if !defined(FIXED_LINE) && defined(OUTSIDE_ONLY)
  VASSUME(line < SPEC_LINE_MIN || line > LB_LINE);   /* every int outside the macro range; the range itself is enumerated */
#endif
  check_line_energy(Z, line, error);
  ERRSLOT_DONE(error);
}

/* single lines, enumerated with a constant macro value (ENUM_LO..ENUM_HI); group macros inside the block are skipped here
 * (they have their own lemmas) */
#ifndef ENUM_LO
#define ENUM_LO SPEC_LINE_MIN
#define ENUM_HI (-1)
#endif
LEMMA(lemma_LineEnergy_enum)
{
  ND_Z(Z); ND_BOOL(with_slot);
  int line;
  for (line = ENUM_LO; line <= ENUM_HI; line++) {
    xrl_error *eo = NULL; xrl_error **error = with_slot ? &eo : NULL;
    if (IS_GROUP4(line) || doublet_index(line) >= 0 || line == KO_LINE || line == KP_LINE) continue;
    VCBMC(g_watch = error;)
    check_line_energy(Z, line, error);
    VNATIVE(xrl_clear_error(&eo);)
  }
  VCANARY("LineEnergy enumeration end");
}
