/* C13 (partial): diffraction functions of src/crystal_diffraction.c, real bodies, callees as UF leaves.
 *  - Bragg_angle = asin(hc/E / 2d) or an error when no reflection exists; Q = E sin(rel theta_B)/hc, 0 for (0,0,0)
 *  - Atomic_Factors = (FF(q), f'(E), -f''(E)) x Debye factor, error protocol
 *  - structure factor = sum over atoms of occupancy x ((f0+f') cos p - f'' sin p, (f0+f') sin p + f'' cos p), p = 2 pi H.r,
 *    with the atomic factors the library itself reports (per-element cache checked with equal and different elements),
 *    flag semantics, invalid flags, NULL crystal, atomic numbers outside the tables.   Bounded: 2 atoms.
 * NOT decided (needs properties of sin/cos/asin/sqrt or real algebra): 2 d sin(theta) = hc/E, inversion / 1/n scaling of d,
 * agreement with the reciprocal metric, Friedel's law, additivity in the flags.                                     */
#include "vh.h"
#include "vstub.h"
#include "leaves.h"
#include "xraylib-crystal-diffraction.h"
double sin(double); double cos(double); double asin(double);
#define FAILS(r, error) ((r) == 0.0 && ONE_ERROR(error))
#define KEV2A KEV2ANGST

#ifdef VERIF_CBMC
double __CPROVER_uninterpreted_v_dsp(Crystal_Struct *, int, int, int); _Bool __CPROVER_uninterpreted_ok_dsp(Crystal_Struct *, int, int, int);
double __CPROVER_uninterpreted_v_bragg(Crystal_Struct *, double, int, int, int); _Bool __CPROVER_uninterpreted_ok_bragg(Crystal_Struct *, double, int, int, int);
double __CPROVER_uninterpreted_v_q(Crystal_Struct *, double, int, int, int, double); _Bool __CPROVER_uninterpreted_ok_q(Crystal_Struct *, double, int, int, int, double);
double __CPROVER_uninterpreted_af0(int, double, double, double); double __CPROVER_uninterpreted_af1(int, double, double, double);
double __CPROVER_uninterpreted_af2(int, double, double, double); _Bool __CPROVER_uninterpreted_afok(int, double, double, double);
#ifdef STUB_DSPACING
double Crystal_dSpacing(Crystal_Struct *c, int i, int j, int k, xrl_error **error)
{ _Bool ok = __CPROVER_uninterpreted_ok_dsp(c, i, j, k); double v = __CPROVER_uninterpreted_v_dsp(c, i, j, k);
  __CPROVER_assume(ok ? (v > 0.0 && !__CPROVER_isinfd(v)) : v == 0.0); if (!ok) stub_fail(error); return v; }
#endif
#ifdef STUB_BRAGG
double Bragg_angle(Crystal_Struct *c, double E, int i, int j, int k, xrl_error **error)
{ _Bool ok = __CPROVER_uninterpreted_ok_bragg(c, E, i, j, k); double v = __CPROVER_uninterpreted_v_bragg(c, E, i, j, k);
  __CPROVER_assume(ok ? !__CPROVER_isnand(v) : v == 0.0); if (!ok) stub_fail(error); return v; }
#endif
#ifdef STUB_FH_CALLEES
double Q_scattering_amplitude(Crystal_Struct *c, double E, int i, int j, int k, double rel, xrl_error **error)
{ _Bool ok = __CPROVER_uninterpreted_ok_q(c, E, i, j, k, rel); double v = __CPROVER_uninterpreted_v_q(c, E, i, j, k, rel);
  __CPROVER_assume(ok ? !__CPROVER_isnand(v) : v == 0.0); if (!ok) stub_fail(error); return v; }
int Atomic_Factors(int Z, double E, double q, double debye, double *f0, double *f1, double *f2, xrl_error **error)
{ _Bool ok = __CPROVER_uninterpreted_afok(Z, E, q, debye);
  __CPROVER_assert(f0 != NULL && f1 != NULL && f2 != NULL, "the structure factor asks for all three atomic factors");
  __CPROVER_assert(Z >= 1 && Z <= ZMAX, "atomic factors are requested for valid atomic numbers only");
  /* the reported factors are written on both outcomes (all 0 on failure): no if-then-else around the UF leaves */
  *f0 = __CPROVER_uninterpreted_af0(Z, E, q, debye); *f1 = __CPROVER_uninterpreted_af1(Z, E, q, debye); *f2 = __CPROVER_uninterpreted_af2(Z, E, q, debye);
  __CPROVER_assume(ok || (*f0 == 0.0 && *f1 == 0.0 && *f2 == 0.0));
  if (!ok) { stub_fail(error); return 0; }
  return 1; }
#endif
void xrl_set_error(xrl_error **err, xrl_error_code code, const char *format, ...) { __CPROVER_assert(format && format[0], "error format is non-empty"); stub_set(err, code); }
#endif

#ifdef STUB_DSPACING
void lemma_Bragg_angle(void)
{
  Crystal_Struct cs; Crystal_Struct *c = &cs; ND_ENERGY(E); ND_INT(i); ND_INT(j); ND_INT(k); ND_ERRSLOT(error);
  double r, d, w;
  GHOST_RESET();
  r = Bragg_angle(c, E, i, j, k, error);
  if (E <= 0.0) { VASSERT(FAILS(r, error), "Bragg_angle: non-positive energy is an error"); }
  else if (!__CPROVER_uninterpreted_ok_dsp(c, i, j, k)) { VASSERT(FAILS(r, error), "Bragg_angle: no d-spacing (NULL crystal, (0,0,0)) is an error"); }
  else {
    d = __CPROVER_uninterpreted_v_dsp(c, i, j, k); w = KEV2A / E;
    if (!(w / (2 * d) <= 1.0 && w / (2 * d) >= -1.0)) { VCANARY("no reflection"); VASSERT(FAILS(r, error), "Bragg_angle: when no reflection exists (hc/E > 2d) the call is an error, never NaN"); }
    else { VCANARY("Bragg defined"); VASSERT(SAME(r, asin(w / (2 * d))) && NO_ERROR(error), "Bragg_angle = asin(hc/E / 2d)"); }
  }
}
#endif
#ifdef STUB_BRAGG
void lemma_Q_scattering_amplitude(void)
{
  Crystal_Struct cs; Crystal_Struct *c = &cs; ND_ENERGY(E); ND_INT(i); ND_INT(j); ND_INT(k); ND_FINITE(rel); ND_ERRSLOT(error);
  double r;
  GHOST_RESET();
  r = Q_scattering_amplitude(c, E, i, j, k, rel, error);
  if (E <= 0.0) { VASSERT(FAILS(r, error), "Q_scattering_amplitude: non-positive energy is an error"); }
  else if (i == 0 && j == 0 && k == 0) { VCANARY("Q zero reflection"); VASSERT(r == 0.0 && NO_ERROR(error), "Q_scattering_amplitude: the (0,0,0) reflection has q = 0 without error"); }
  else { VCANARY("Q defined");
    VASSERT(SAME(r, E * sin(rel * __CPROVER_uninterpreted_v_bragg(c, E, i, j, k)) / KEV2A), "Q_scattering_amplitude = E sin(rel x Bragg angle) / hc");
    VASSERT(__CPROVER_uninterpreted_ok_bragg(c, E, i, j, k) ? NO_ERROR(error) : ONE_ERROR(error), "Q_scattering_amplitude: an error exactly when the Bragg angle fails"); }
}
#endif
#ifdef LEMMA_ATOMIC_FACTORS
void lemma_Atomic_Factors(void)
{
  ND_Z(Z); ND_ENERGY(E); ND_FINITE(q); ND_FINITE(debye); ND_ERRSLOT(error);
  double f0 = 7.0, f1 = 7.0, f2 = 7.0; int r;
  GHOST_RESET();
  r = Atomic_Factors(Z, E, q, debye, &f0, &f1, &f2, error);
  if (debye <= 0.0) { VASSERT(r == 0 && f0 == 0.0 && f1 == 0.0 && f2 == 0.0 && ONE_ERROR(error), "Atomic_Factors: a non-positive Debye factor is an error, all factors 0"); }
  else if (r) { VCANARY("atomic factors defined");
    VASSERT(SAME(f0, LEAF_FF_Rayl(Z, q) * debye) && SAME(f1, LEAF_Fi(Z, E) * debye) && SAME(f2, -LEAF_Fii(Z, E) * debye) && NO_ERROR(error),
            "Atomic_Factors = (form factor at q, f'(E), -f''(E)) x Debye factor"); }
  else { VASSERT(f0 == 0.0 && f1 == 0.0 && f2 == 0.0, "Atomic_Factors: on failure all three factors are 0");
    VASSERT(!(LEAFOK_FF_Rayl(Z, q) && LEAFOK_Fi(Z, E) && LEAFOK_Fii(Z, E)),
            "Atomic_Factors fails only when a factor is unavailable: a factor that is exactly 0 is a value");
    VASSERT(ONE_ERROR(error), "Atomic_Factors: every failure carries exactly one error"); }
}
/* any subset of the three factors may be requested (NULL = not wanted): unrequested ones are neither computed nor able to fail the call */
void lemma_Atomic_Factors_optional(void)
{
  ND_Z(Z); ND_ENERGY(E); ND_FINITE(q); ND_FINITE(debye); ND_ERRSLOT(error); ND_BOOL(w0); ND_BOOL(w1); ND_BOOL(w2);
  double f0 = 7.0, f1 = 7.0, f2 = 7.0; int r, bad;
  GHOST_RESET();
  r = Atomic_Factors(Z, E, q, debye, w0 ? &f0 : NULL, w1 ? &f1 : NULL, w2 ? &f2 : NULL, error);
  VASSERT((w0 || f0 == 7.0) && (w1 || f1 == 7.0) && (w2 || f2 == 7.0), "Atomic_Factors: a factor that was not requested is not written");
  if (debye <= 0.0) { VASSERT(r == 0 && ONE_ERROR(error) && (!w0 || f0 == 0.0) && (!w1 || f1 == 0.0) && (!w2 || f2 == 0.0), "Atomic_Factors (optional outputs): a non-positive Debye factor is an error, requested factors 0"); }
  else {
    bad = (w0 && !LEAFOK_FF_Rayl(Z, q)) || (w1 && !LEAFOK_Fi(Z, E)) || (w2 && !LEAFOK_Fii(Z, E));
    VASSERT((r == 0) == (bad != 0), "Atomic_Factors (optional outputs): fails exactly when a requested factor is unavailable");
    if (r) { VCANARY("optional atomic factors defined");
      VASSERT((!w0 || SAME(f0, LEAF_FF_Rayl(Z, q) * debye)) && (!w1 || SAME(f1, LEAF_Fi(Z, E) * debye)) && (!w2 || SAME(f2, -LEAF_Fii(Z, E) * debye)) && NO_ERROR(error),
              "Atomic_Factors (optional outputs): each requested factor = its table value x Debye factor"); }
    else { VCANARY("optional atomic factors fail");
      VASSERT(ONE_ERROR(error) && (!w0 || f0 == 0.0) && (!w1 || f1 == 0.0) && (!w2 || f2 == 0.0), "Atomic_Factors (optional outputs): a failure carries exactly one error and zeroes the requested factors"); }
  }
}
#endif
#ifdef STUB_FH_CALLEES
#ifndef ZA
#define ZA 26
#define ZB 8
#define F0FLAG 2
#define F1FLAG 2
#define F2FLAG 2
#endif
void lemma_F_H(void)
{
  Crystal_Struct cs; Crystal_Atom at[2]; ND_ENERGY(E); ND_INT(i); ND_INT(j); ND_INT(k); ND_FINITE(debye); ND_FINITE(rel); ND_ERRSLOT(error);
  xrlComplex F; int a, valid = (F0FLAG == 0 || F0FLAG == 1 || F0FLAG == 2) && (F1FLAG == 0 || F1FLAG == 2) && (F2FLAG == 0 || F2FLAG == 2);
  double q, re = 0.0, im = 0.0;
  cs.n_atom = 2; cs.atom = at; at[0].Zatom = ZA; at[1].Zatom = ZB;
  GHOST_RESET();
  F = Crystal_F_H_StructureFactor_Partial(&cs, E, i, j, k, debye, rel, F0FLAG, F1FLAG, F2FLAG, error);
  q = __CPROVER_uninterpreted_v_q(&cs, E, i, j, k, rel);
  if (!__CPROVER_uninterpreted_ok_q(&cs, E, i, j, k, rel) || !__CPROVER_uninterpreted_afok(ZA, E, q, debye) || !__CPROVER_uninterpreted_afok(ZB, E, q, debye) || !valid) {
    VCANARY("F_H fails");
    VASSERT(F.re == 0.0 && F.im == 0.0 && ONE_ERROR(error), "structure factor: undefined momentum transfer / atomic factors or an invalid flag is (0,0) and exactly one error");
  } else {
    for (a = 0; a < 2; a++) {
      int Z = at[a].Zatom;
      double f0 = __CPROVER_uninterpreted_af0(Z, E, q, debye), f1 = __CPROVER_uninterpreted_af1(Z, E, q, debye), f2 = __CPROVER_uninterpreted_af2(Z, E, q, debye);
      double fre = (F0FLAG == 0) ? 0 : (F0FLAG == 1) ? 1 : f0, fim = (F2FLAG == 2) ? f2 : 0;
      double p = TWOPI * (i * at[a].x + j * at[a].y + k * at[a].z);
      if (F1FLAG == 2) fre = fre + f1;
      re = re + at[a].fraction * (fre * cos(p) - fim * sin(p));
      im = im + at[a].fraction * (fre * sin(p) + fim * cos(p));
    }
    VCANARY("F_H defined");
    VASSERT(SAME(F.re, re) && SAME(F.im, im) && NO_ERROR(error), "structure factor = sum over atoms of occupancy x (f0 + f' + i f'') x phase factor, with the atomic factors the library reports for each atom's element");
  }
}
void lemma_F_H_badinput(void)
{
  Crystal_Struct cs; Crystal_Atom at[1]; ND_ENERGY(E); ND_INT(i); ND_INT(j); ND_INT(k); ND_FINITE(debye); ND_FINITE(rel); ND_ERRSLOT(error); ND_INT(Z);
  xrlComplex F;
  GHOST_RESET();
  F = Crystal_F_H_StructureFactor_Partial(NULL, E, i, j, k, debye, rel, 2, 2, 2, error);
  VASSERT(F.re == 0.0 && F.im == 0.0 && ONE_ERROR(error), "structure factor: a NULL crystal is (0,0) and one error for every reflection, (0,0,0) included");
  VASSUME(Z < 1 || Z > ZMAX);
  cs.n_atom = 1; cs.atom = at; at[0].Zatom = Z;
  VASSUME(__CPROVER_uninterpreted_ok_q(&cs, E, i, j, k, rel));
  { xrl_error *e2 = NULL; g_watch = &e2; GHOST_RESET();
    F = Crystal_F_H_StructureFactor_Partial(&cs, E, i, j, k, debye, rel, 2, 2, 2, &e2);
    VASSERT(F.re == 0.0 && F.im == 0.0 && e2 != NULL && g_fail == 1, "structure factor: an atom with an atomic number outside the tables is (0,0) and one error (no out-of-bounds access)"); }
  VCANARY("F_H bad input end");
}
#endif

#ifdef LEMMA_GEOMETRY
/* geometry, as congruences over unknown sin/cos/sqrt/pow: the d-spacing is the triclinic reciprocal-metric expression
 *   d = (V / abc) / sqrt( (h sin(al)/a)^2 + (k sin(be)/b)^2 + (l sin(ga)/c)^2
 *                         + 2hk (cos al cos be - cos ga)/ab + 2hl (cos al cos ga - cos be)/ac + 2kl (cos be cos ga - cos al)/bc )
 * with V the stored cell volume, and the cell volume is abc sqrt(1 - cos^2 al - cos^2 be - cos^2 ga + 2 cos al cos be cos ga).
 * What is NOT decided: that this expression is invariant under inversion, scales as 1/n, etc. (real algebra).          */
double pow(double, double); double sqrt(double);
#define SD(x) sin((x) * DEGRAD)
#define CD(x) cos((x) * DEGRAD)
/* refutation pre-pass: one concrete cell (with the concrete libm interpretation of libm_uf.c both sides constant-fold) */
#if defined(VERIF_CBMC) && defined(V_RESTRICT_LEAVES)
#define RESTRICT_CELL(c) __CPROVER_assume((c).a == 2.0 && (c).b == 4.0 && (c).c == 8.0 && (c).alpha == 64.0 && (c).beta == 80.0 && (c).gamma == 96.0 && (c).volume == 16.0)
#else
#define RESTRICT_CELL(c)
#endif
void lemma_dSpacing(void)
{
  Crystal_Struct c; ND_INT(h); ND_INT(k); ND_INT(l); ND_ERRSLOT(error);
  double r, e;
  RESTRICT_CELL(c);
#if defined(VERIF_CBMC) && defined(V_RESTRICT_LEAVES)
  __CPROVER_assume(h == 1 && k == -2 && l == 3);
#endif
  GHOST_RESET();
  r = Crystal_dSpacing(&c, h, k, l, error);
  if (h == 0 && k == 0 && l == 0) { VASSERT(FAILS(r, error), "Crystal_dSpacing: the (0,0,0) triple is an error"); }
  else {
    e = (c.volume / (c.a * c.b * c.c)) * sqrt(1 / (
        pow(h * SD(c.alpha) / c.a, 2) + pow(k * SD(c.beta) / c.b, 2) + pow(l * SD(c.gamma) / c.c, 2) +
        2.0 * h * k * (CD(c.alpha) * CD(c.beta) - CD(c.gamma)) / (c.a * c.b) +
        2.0 * h * l * (CD(c.alpha) * CD(c.gamma) - CD(c.beta)) / (c.a * c.c) +
        2.0 * k * l * (CD(c.beta) * CD(c.gamma) - CD(c.alpha)) / (c.b * c.c)));
    VCANARY("dSpacing defined");
    VASSERT(SAME(r, e) && NO_ERROR(error), "Crystal_dSpacing = the reciprocal-metric expression of the cell (triclinic formula)");
  }
  { xrl_error *e2 = NULL; g_watch = &e2; GHOST_RESET();
    VASSERT(Crystal_dSpacing(NULL, h, k, l, &e2) == 0.0 && e2 != NULL && g_fail == 1, "Crystal_dSpacing: a NULL crystal is an error"); }
}
void lemma_UnitCellVolume(void)
{
  Crystal_Struct c; ND_ERRSLOT(error);
  double r, e;
  RESTRICT_CELL(c);
  GHOST_RESET();
  r = Crystal_UnitCellVolume(&c, error);
  e = c.a * c.b * c.c * sqrt((1 - pow(CD(c.alpha), 2) - pow(CD(c.beta), 2) - pow(CD(c.gamma), 2)) + 2 * CD(c.alpha) * CD(c.beta) * CD(c.gamma));
  VCANARY("volume defined");
  VASSERT(SAME(r, e) && NO_ERROR(error), "Crystal_UnitCellVolume = abc sqrt(1 - cos^2 alpha - cos^2 beta - cos^2 gamma + 2 cos alpha cos beta cos gamma)");
  { xrl_error *e2 = NULL; g_watch = &e2; GHOST_RESET();
    VASSERT(Crystal_UnitCellVolume(NULL, &e2) == 0.0 && e2 != NULL && g_fail == 1, "Crystal_UnitCellVolume: a NULL crystal is an error"); }
}
#endif
