/* The error-object code itself (src/xraylib-error.c + xrl_strdup of src/xraylib-aux.c), real bodies, CBMC's models of
 * malloc/strdup/free.  C03: "exactly one error, meaningful code, non-empty message, never over an existing one";
 * C04: ownership (set/copy/clear leave nothing allocated).  Messages are nondeterministic strings of length <= 3
 * (bounded, K5) - every call site in the library passes a string literal or a short format.                        */
#include "vh.h"
#include <string.h>

#define MAXMSG 4
static void nd_string(char *m)
{
  int i;
  for (i = 0; i < MAXMSG - 1; i++) { char c; m[i] = c; }
  m[MAXMSG - 1] = 0;
}

LEMMA(lemma_error_set_literal)
{
  char msg[MAXMSG];
  int code;
  xrl_error *e = NULL;
  nd_string(msg);
  __CPROVER_assume(msg[0] != 0 && ERR_CODE_OK(code));
  xrl_set_error_literal(&e, (xrl_error_code)code, msg);
  __CPROVER_assert(e != NULL && e->code == (xrl_error_code)code, "set_error_literal stores an error with the given code");
  __CPROVER_assert(e->message != NULL && e->message != msg && strcmp(e->message, msg) == 0, "the stored message is a private copy of the message");
  __CPROVER_assert(e->message[0] != 0, "the stored message is non-empty");
  { /* a second store must not replace the first error (C03: never over an existing one) */
    xrl_error *first = e;
    xrl_set_error_literal(&e, XRL_ERROR_MEMORY, "x");
    __CPROVER_assert(e == first && e->code == (xrl_error_code)code, "an existing error is not overwritten");
  }
  xrl_set_error_literal(NULL, (xrl_error_code)code, msg);   /* no slot: nothing happens */
  xrl_clear_error(&e);
  __CPROVER_assert(e == NULL, "clear_error empties the slot");
  __CPROVER_assert(0, "CANARY error literal lemma end reached");
}

LEMMA(lemma_error_copy_propagate)
{
  char msg[MAXMSG];
  int code;
  xrl_error *e = NULL, *c = NULL, *dest = NULL;
  nd_string(msg);
  __CPROVER_assume(msg[0] != 0 && ERR_CODE_OK(code));
  e = xrl_error_new_literal((xrl_error_code)code, msg);
  __CPROVER_assert(e != NULL, "error_new_literal returns an object");
  c = xrl_error_copy(e);
  __CPROVER_assert(c != NULL && c != e && c->code == e->code && c->message != e->message && strcmp(c->message, e->message) == 0,
                   "error_copy is an independent deep copy");
  __CPROVER_assert(xrl_error_matches(e, (xrl_error_code)code) && !xrl_error_matches(NULL, (xrl_error_code)code), "error_matches");
  xrl_propagate_error(&dest, e);            /* ownership moves to dest */
  __CPROVER_assert(dest == e, "propagate moves the error into an empty slot");
  xrl_propagate_error(NULL, c);             /* no slot: the error is released */
  xrl_clear_error(&dest);
  __CPROVER_assert(dest == NULL, "clear_error empties the slot");
  __CPROVER_assert(xrl_error_copy(NULL) == NULL, "copy of no error is no error");
  xrl_error_free(NULL);
  __CPROVER_assert(0, "CANARY error copy lemma end reached");
}
