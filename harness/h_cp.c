/* C06: compound quantities follow the mass-fraction mixture rule (src/cs_cp.c, src/refractive_indices.c).
 *
 * Real bodies of the 21 macro-generated _CP functions and the three refractive-index entry points.
 * The formula parser and the NIST lookup are replaced by their *assumed contracts* (ghost model below):
 *   CompoundParser(name, NULL)            -> NULL, or a fresh composition of 1..NMAXEL elements, positive finite fractions
 *   GetCompoundDataNISTByName(name, NULL) -> NULL, or a fresh composition + positive density; only consulted after the parser failed
 *   FreeCompoundData / FreeCompoundDataNIST release exactly that object, once
 * (C07 / C15 are where those contracts are discharged.)  The elemental functions are UF leaves.
 * Bounded (K5): NMAXEL elements.  No native twin (the composition is ghost state).                                  */
#include "vh.h"
#include "vstub.h"
#include "leaves.h"
#include "xraylib-parser.h"
#include "xraylib-nist-compounds.h"
#ifndef NMAXEL
#define NMAXEL 3
#endif

/* ghost composition */
int g_kind;                 /* 0: neither formula nor NIST name, 1: formula, 2: NIST compound */
int g_n; int g_el[NMAXEL]; double g_mf[NMAXEL]; double g_nist_density;
int g_cd_live, g_cdn_live, g_parser_calls, g_nist_calls, g_double_free;
static struct compoundData g_cd; static struct compoundDataNIST g_cdn;

struct compoundData *CompoundParser(const char compoundString[], xrl_error **error)
{
  g_parser_calls++;
  __CPROVER_assert(error == NULL, "the compound is resolved without touching the caller's error slot");
  if (g_kind != 1) return NULL;
  g_cd.nElements = g_n; g_cd.Elements = g_el; g_cd.massFractions = g_mf;
  g_cd_live++;
  return &g_cd;
}
struct compoundDataNIST *GetCompoundDataNISTByName(const char compoundString[], xrl_error **error)
{
  g_nist_calls++;
  __CPROVER_assert(g_parser_calls == 1 && g_kind != 1, "the NIST catalogue is consulted only after the formula parser rejected the name");
  if (g_kind != 2) return NULL;
  g_cdn.nElements = g_n; g_cdn.Elements = g_el; g_cdn.massFractions = g_mf; g_cdn.density = g_nist_density;
  g_cdn_live++;
  return &g_cdn;
}
void FreeCompoundData(struct compoundData *cd) { __CPROVER_assert(cd == &g_cd && g_cd_live == 1, "FreeCompoundData releases the parsed composition exactly once"); g_cd_live--; }
void FreeCompoundDataNIST(struct compoundDataNIST *cdn) { __CPROVER_assert(cdn == &g_cdn && g_cdn_live == 1, "FreeCompoundDataNIST releases the catalogue copy exactly once"); g_cdn_live--; }

static void ghost_compound(void)
{
  int i;
  int kind, n; double dens;
  __CPROVER_assume(kind >= 0 && kind <= 2 && n >= 1 && n <= NMAXEL);
#ifdef KIND
  /* one query per way of resolving the name (0 unknown, 1 formula, 2 NIST): with a constant kind the symbolic
   * execution resolves the composition pointers exactly, which keeps code and specification syntactically equal */
  kind = KIND;
#endif
  g_kind = kind; g_n = n; g_nist_density = dens;
  __CPROVER_assume(dens > 0.0 && !V_ISINF(dens));             /* C15: catalogue densities are positive */
  for (i = 0; i < NMAXEL; i++) {
    int z; double w;
    __CPROVER_assume(w > 0.0 && !V_ISINF(w));                  /* C07 / C15: mass fractions are positive numbers */
    g_el[i] = z; g_mf[i] = w;
  }
  g_cd_live = g_cdn_live = g_parser_calls = g_nist_calls = 0;
}
#define NO_LEAK() VASSERT(g_cd_live == 0 && g_cdn_live == 0, "the temporary composition is released on every exit (no leak)")
#define FAILS(r, error) ((r) == 0.0 && ONE_ERROR(error))
static const char NAME[] = "X";

/* sum over the elements of elemental function x mass fraction; the first failing element fails the call */
#define CP_LEMMA(f, DECLS, ARGS) \
LEMMA(lemma_##f##_CP) \
{ \
  DECLS; ND_ERRSLOT(error); \
  int i, failed = 0; double r, e = 0.0; \
  ghost_compound(); GHOST_RESET(); \
  r = f##_CP(NAME ARGS, error); \
  NO_LEAK(); \
  if (g_kind == 0) { VCANARY(#f "_CP unknown compound"); VASSERT(FAILS(r, error), #f "_CP: neither a formula nor a NIST compound is an error"); } \
  else { \
    for (i = 0; i < g_n; i++) { \
      double tmp = LEAF_##f(g_el[i] ARGS) * g_mf[i];   /* public value: 0 when the elemental call fails */ \
      /* A-underflow: the product of a successful strictly positive elemental value and a positive fraction is not 0 */ \
      VASSUME(!(LEAFOK_##f(g_el[i] ARGS) && tmp == 0.0)); \
      if (tmp == 0.0) { e = 0.0; failed = 1; break; } \
      e += tmp; \
    } \
    if (failed) { VCANARY(#f "_CP element fails"); VASSERT(FAILS(r, error), #f "_CP: an element for which the elemental function fails makes the compound call fail (no partial sum)"); } \
    else { VCANARY(#f "_CP defined"); VASSERT(SAME(r, e) && NO_ERROR(error), #f "_CP = sum over the elements of " #f " x mass fraction"); } \
  } \
}
#define C ,
CP_LEMMA(CS_Total, ND_ENERGY(E), C E)
CP_LEMMA(CS_Photo, ND_ENERGY(E), C E)
CP_LEMMA(CS_Rayl, ND_ENERGY(E), C E)
CP_LEMMA(CS_Compt, ND_ENERGY(E), C E)
CP_LEMMA(CSb_Total, ND_ENERGY(E), C E)
CP_LEMMA(CSb_Photo, ND_ENERGY(E), C E)
CP_LEMMA(CSb_Rayl, ND_ENERGY(E), C E)
CP_LEMMA(CSb_Compt, ND_ENERGY(E), C E)
CP_LEMMA(CS_Energy, ND_ENERGY(E), C E)
CP_LEMMA(CS_Photo_Total, ND_ENERGY(E), C E)
CP_LEMMA(CSb_Photo_Total, ND_ENERGY(E), C E)
CP_LEMMA(CS_Total_Kissel, ND_ENERGY(E), C E)
CP_LEMMA(CSb_Total_Kissel, ND_ENERGY(E), C E)
CP_LEMMA(DCS_Rayl, ND_ENERGY(E); ND_ANGLE(theta), C E C theta)
CP_LEMMA(DCS_Compt, ND_ENERGY(E); ND_ANGLE(theta), C E C theta)
CP_LEMMA(DCSb_Rayl, ND_ENERGY(E); ND_ANGLE(theta), C E C theta)
CP_LEMMA(DCSb_Compt, ND_ENERGY(E); ND_ANGLE(theta), C E C theta)
CP_LEMMA(DCSP_Rayl, ND_ENERGY(E); ND_ANGLE(theta); ND_ANGLE(phi), C E C theta C phi)
CP_LEMMA(DCSP_Compt, ND_ENERGY(E); ND_ANGLE(theta); ND_ANGLE(phi), C E C theta C phi)
CP_LEMMA(DCSPb_Rayl, ND_ENERGY(E); ND_ANGLE(theta); ND_ANGLE(phi), C E C theta C phi)
CP_LEMMA(DCSPb_Compt, ND_ENERGY(E); ND_ANGLE(theta); ND_ANGLE(phi), C E C theta C phi)

/* ------------------------------------------------------------------ refractive index */
#define KD_SPEC 4.15179082788e-4
/* density actually used: the caller's when positive, the catalogue's for a NIST compound otherwise */
static int spec_density(double density, double *used)
{
  if (g_kind == 2 && density <= 0.0) density = g_nist_density;
  *used = density;
  return !(density <= 0.0);   /* "positive", phrased with the comparison the code uses (equivalent for the finite densities quantified over) */
}
/* delta = sum w_i K (Z_i + f'_i) / A_i / E^2 ; mu = sum mu_i w_i ; *failed when an elemental function fails */
static void spec_sums(double E, int need_fi, int need_cs, double *delta, double *mu, int *failed)
{
  int i;
  *delta = 0.0; *mu = 0.0; *failed = 0;
  for (i = 0; i < g_n; i++) {
    double fi = 0.0, aw = 0.0, cs = 0.0;
    if (need_fi) {
      fi = LEAF_Fi(g_el[i], E);
      if (!LEAFOK_Fi(g_el[i], E)) { *failed = 1; break; }   /* f' may legitimately be 0: failure is the error, not the value */
      aw = LEAF_AtomicWeight(g_el[i]);
      if (aw == 0.0) { *failed = 1; break; }
    }
    if (need_cs) {
      cs = LEAF_CS_Total(g_el[i], E);
      if (cs == 0.0) { *failed = 1; break; }
      *mu += cs * g_mf[i];
    }
    if (need_fi) *delta += g_mf[i] * KD_SPEC * (g_el[i] + fi) / aw / E / E;
  }
}
#define REFR_COMMON(call, ISFAIL) \
  ND_ENERGY(E); ND_FINITE(density); ND_ERRSLOT(error); \
  double used, delta, mu; int failed, dens_ok; \
  ghost_compound(); GHOST_RESET(); \
  call; \
  NO_LEAK(); \
  dens_ok = spec_density(density, &used); \
  if (g_kind == 0 || !dens_ok || E <= 0.0) { \
    VCANARY("refractive index invalid input"); \
    VASSERT(ISFAIL, "refractive index: unknown compound, non-positive density (unless a NIST compound supplies its own) or non-positive energy is an error"); \
  } else

LEMMA(lemma_Refractive_Index_Re)
{
  double r;
  REFR_COMMON(r = Refractive_Index_Re(NAME, E, density, error), FAILS(r, error)) {
    spec_sums(E, 1, 0, &delta, &mu, &failed);
    if (failed) { VCANARY("Re element fails"); VASSERT(FAILS(r, error), "Refractive_Index_Re: an element without f' or atomic weight fails the call with one error"); }
    else { VCANARY("Re defined"); VASSERT(SAME(r, 1.0 - (delta * used)) && NO_ERROR(error), "Refractive_Index_Re = 1 - rho x sum(w_i K (Z_i + f'_i) / A_i) / E^2"); }
  }
}
LEMMA(lemma_Refractive_Index_Im)
{
  double r;
  REFR_COMMON(r = Refractive_Index_Im(NAME, E, density, error), FAILS(r, error)) {
    spec_sums(E, 0, 1, &delta, &mu, &failed);
    if (failed) { VCANARY("Im element fails"); VASSERT(FAILS(r, error), "Refractive_Index_Im: an element without total cross section fails the call with one error"); }
    else { VCANARY("Im defined"); VASSERT(SAME(r, mu * used * 9.8663479e-9 / E) && NO_ERROR(error), "Refractive_Index_Im = rho x mu_total x hc/4pi / E"); }
  }
}
LEMMA(lemma_Refractive_Index)
{
  xrlComplex z;
  REFR_COMMON(z = Refractive_Index(NAME, E, density, error), (z.re == 0.0 && z.im == 0.0 && ONE_ERROR(error))) {
    spec_sums(E, 1, 1, &delta, &mu, &failed);
    if (failed) { VCANARY("complex element fails"); VASSERT(z.re == 0.0 && z.im == 0.0 && ONE_ERROR(error), "Refractive_Index: a failing element fails the call with one error"); }
    else { VCANARY("complex defined");
      VASSERT(SAME(z.re, 1.0 - (delta * used)) && SAME(z.im, mu * used * 9.8663479e-9 / E) && NO_ERROR(error),
              "Refractive_Index: real and imaginary parts are exactly the values of the _Re and _Im formulas"); }
  }
}

/* NIST compounds, relational form: resolving the name through the NIST catalogue gives bit-for-bit what resolving it as a
 * formula with the same composition gives, with the catalogue's density standing in for a non-positive one.  Both sides
 * are runs of the real code (the formula run is the one the lemmas above compare with the statement), so they are
 * syntactically equal whatever the composition is.                                                                  */
#define REFR_NIST_LEMMA(name, TYPE, CALL, EQ) \
LEMMA(lemma_##name##_nist_as_formula) \
{ \
  ND_ENERGY(E); ND_FINITE(density); \
  xrl_error *e1 = NULL, *e2 = NULL; TYPE a, b; double d2; \
  ghost_compound(); \
  g_kind = 2; g_watch = &e1; GHOST_RESET(); g_parser_calls = g_nist_calls = 0; \
  a = CALL(NAME, E, density, &e1); \
  VASSERT(g_cd_live == 0 && g_cdn_live == 0, "the catalogue copy is released on every exit (no leak)"); \
  d2 = density; if (density <= 0.0) d2 = g_nist_density; \
  g_kind = 1; g_watch = &e2; g_parser_calls = g_nist_calls = 0; \
  b = CALL(NAME, E, d2, &e2); \
  VASSERT(EQ, #name ": a NIST compound gives exactly the value of the formula with the same composition, its own density standing in for a non-positive one"); \
  VASSERT((e1 == NULL) == (e2 == NULL), #name ": ... and fails exactly when that formula call fails"); \
  if (e1 == NULL) { VCANARY(#name " nist defined"); } else { VCANARY(#name " nist fails"); } \
}
REFR_NIST_LEMMA(Refractive_Index_Re, double, Refractive_Index_Re, SAME(a, b))
REFR_NIST_LEMMA(Refractive_Index_Im, double, Refractive_Index_Im, SAME(a, b))
REFR_NIST_LEMMA(Refractive_Index, xrlComplex, Refractive_Index, SAME(a.re, b.re) && SAME(a.im, b.im))
