/* K2 value lemmas for C09: jump-ratio XRF cross sections (src/cs_line.c).
 *
 * Real bodies: CS_FluorShell, CS_FluorLine and the four static Jump_from_* functions.
 * UF leaves  : EdgeEnergy, JumpFactor, FluorYield, CosKronTransProb, CS_Photo, RadRate (public values).
 * LEAF_f(args) is the public value of f: 0 when the call fails.                                        */
#include "vh.h"
#include "vstub.h"
#include "leaves.h"
#include "spec_lines.h"
#include "spec_lineshell.h"

#define FAILS(r, error) ((r) == 0.0 && ONE_ERROR(error))

/* fraction of the photo-absorption that ends as fluorescence of `shell` at energy E; *avail = 0 when the
 * energy is below the sub-shell edge or a required jump ratio / yield / Coster-Kronig probability is missing.
 * Written from the statement: jump ratios of all edges lying below E, Coster-Kronig feeding from the higher
 * L sub-shells for L2/L3, times the fluorescence yield.                                                   */
static double spec_share(int Z, int shell, double E, int *avail)
{
  double eK = LEAF_EdgeEnergy(Z, K_SHELL), e1 = LEAF_EdgeEnergy(Z, L1_SHELL);
  double e2 = LEAF_EdgeEnergy(Z, L2_SHELL), e3 = LEAF_EdgeEnergy(Z, L3_SHELL);
  double JK = LEAF_JumpFactor(Z, K_SHELL), J1 = LEAF_JumpFactor(Z, L1_SHELL);
  double J2 = LEAF_JumpFactor(Z, L2_SHELL), J3 = LEAF_JumpFactor(Z, L3_SHELL);
  int aboveK = (E > eK && eK > 0.0), above1 = (E > e1 && e1 > 0.0);
  int above2 = (E > e2 && e2 > 0.0), above3 = (E > e3 && e3 > 0.0);
  double f = 1.0, y, t1 = 0.0, t2 = 0.0, t3 = 0.0;
  *avail = 0;
  if (shell == K_SHELL) {
    if (!aboveK || JK == 0.0) return 0.0;
    y = LEAF_FluorYield(Z, K_SHELL);
    if (y == 0.0) return 0.0;
    f = ((JK - 1) / JK) * y;
    if (f == 0.0) return 0.0;   /* a vanishing share (jump ratio of exactly 1) counts as unavailable */
    *avail = 1;
    return f;
  }
  if (aboveK) { if (JK == 0.0) return 0.0; f /= JK; }
  if (shell == L1_SHELL) {
    if (!above1 || J1 == 0.0) return 0.0;
    y = LEAF_FluorYield(Z, L1_SHELL);
    if (y == 0.0) return 0.0;
    f *= ((J1 - 1) / J1) * y;
    if (f == 0.0) return 0.0;
    *avail = 1;
    return f;
  }
  if (shell == L2_SHELL) {
    double ck12;
    if (above1) { if (J1 == 0.0 || J2 == 0.0) return 0.0; t1 = (J1 - 1) / J1; t2 = (J2 - 1) / (J2 * J1); }
    else if (above2) { if (J2 == 0.0) return 0.0; t1 = 0.0; t2 = (J2 - 1) / J2; }
    else return 0.0;
    ck12 = LEAF_CosKronTransProb(Z, FL12_TRANS);
    if (t1 > 0 && ck12 == 0.0) return 0.0;
    y = LEAF_FluorYield(Z, L2_SHELL);
    if (y == 0.0) return 0.0;
    f *= (t2 + t1 * ck12) * y;
    if (f == 0.0) return 0.0;
    *avail = 1;
    return f;
  }
  /* L3 */
  {
    double ck23, ck13, ckp13, ck12;
    if (above1) { if (J1 == 0.0 || J2 == 0.0 || J3 == 0.0) return 0.0;
                  t1 = (J1 - 1) / J1; t2 = (J2 - 1) / (J2 * J1); t3 = (J3 - 1) / (J3 * J2 * J1); }
    else if (above2) { if (J2 == 0.0 || J3 == 0.0) return 0.0; t1 = 0.0; t2 = (J2 - 1) / (J2); t3 = (J3 - 1) / (J3 * J2); }
    else if (above3) { if (J3 == 0.0) return 0.0; t1 = 0.0; t2 = 0.0; t3 = (J3 - 1) / J3; }
    else return 0.0;
    ck23 = LEAF_CosKronTransProb(Z, FL23_TRANS); ck13 = LEAF_CosKronTransProb(Z, FL13_TRANS);
    ckp13 = LEAF_CosKronTransProb(Z, FLP13_TRANS); ck12 = LEAF_CosKronTransProb(Z, FL12_TRANS);
    if (t2 > 0.0 && ck23 == 0.0) return 0.0;
    if (t1 > 0.0 && (ck13 + ckp13 == 0.0 || ck12 == 0.0 || ck23 == 0.0)) return 0.0;
    f *= t3 + t2 * ck23 + t1 * (ck13 + ckp13 + ck12 * ck23);
    y = LEAF_FluorYield(Z, L3_SHELL);
    if (y == 0.0) return 0.0;
    f *= y;
    if (f == 0.0) return 0.0;
    *avail = 1;
    return f;
  }
}

#ifdef FIXED_SHELL
#define SHELL_INPUT(shell) int shell = FIXED_SHELL
#else
#define SHELL_INPUT(shell) ND_SHELL(shell); VASSUME(shell < K_SHELL || shell > L3_SHELL)
#endif

LEMMA(lemma_CS_FluorShell)
{
  ND_Z(Z); SHELL_INPUT(shell); ND_ENERGY(E); ND_ERRSLOT(error);
  int avail = 0;
  double share, t;
  GHOST_RESET();
  t = CS_FluorShell(Z, shell, E, error);
  if (!Z_OK(Z) || E <= 0.0 || shell < K_SHELL || shell > L3_SHELL) {
    VCANARY("CS_FluorShell invalid argument");
    VASSERT(FAILS(t, error), "CS_FluorShell: Z, energy or shell out of range is an error");
  } else {
    share = spec_share(Z, shell, E, &avail);
    if (!avail) {
      VCANARY("CS_FluorShell below edge or primitive unavailable");
      VASSERT(FAILS(t, error), "CS_FluorShell: below the sub-shell edge, a required jump ratio / yield / Coster-Kronig probability unavailable, or a vanishing jump share is an error (never a silent 0)");
    } else if (!LEAFOK_CS_Photo(Z, E)) {
      VASSERT(FAILS(t, error), "CS_FluorShell: undefined photo cross section is an error");
    } else {
      VCANARY("CS_FluorShell defined");
      VASSERT(SAME(t, LEAF_CS_Photo(Z, E) * share) && NO_ERROR(error),
              "CS_FluorShell = photo cross section x jump share (edges below E, Coster-Kronig feeding) x fluorescence yield");
    }
  }
  ERRSLOT_DONE(error);
}

/* line -> shell, derived from the macro names (gen/spec_lineshell.h); group macros handled explicitly */
static int spec_line_shell(int line)
{
  if (line == KA_LINE || line == KB_LINE) return K_SHELL;
  if (line == LA_LINE) return L3_SHELL;
  /* blocks of macro values per starting shell, generated from the macro names (contiguity checked by the generator) */
  if (line >= SPEC_K_LINES_LO && line <= SPEC_K_LINES_HI) return K_SHELL;
  if (line >= SPEC_L1_LINES_LO && line <= SPEC_L1_LINES_HI) return L1_SHELL;
  if (line >= SPEC_L2_LINES_LO && line <= SPEC_L2_LINES_HI) return L2_SHELL;
  if (line >= SPEC_L3_LINES_LO && line <= SPEC_L3_LINES_HI) return L3_SHELL;
  return -1;
}

/* L-beta members grouped by sub-shell, in the library's summation order.  vlib/specgen.py checks on every run that
 * this set equals the name-derived L-beta set (LB<n> aliases + L3N6 + L3N7, the doublet LB5 = L3O45 also
 * contributing its two member slots).                                                                        */
static const int LB_L2[] = {L2M4_LINE, L2M3_LINE};
static const int LB_L3[] = {L3N5_LINE, L3O4_LINE, L3O5_LINE, L3O45_LINE, L3N1_LINE, L3O1_LINE, L3N6_LINE, L3N7_LINE, L3N4_LINE};
static const int LB_L1[] = {L1M3_LINE, L1M2_LINE, L1M5_LINE, L1M4_LINE};

/* One call of CS_FluorLine checked against the statement.  `cls` is the name-derived shell of `line`
 * (a compile-time constant in the enumerating lemmas, so that code and specification stay syntactically equal). */
static void check_fluor_line(int Z, int line, double E, int cls, xrl_error **error)
{
  double t;
  GHOST_RESET();
  t = CS_FluorLine(Z, line, E, error);
  if (line == LB_LINE) {
    /* sum over the member lines, factorised per sub-shell: share_shell x (sum of member rates), times photo */
    int a2, a3, a1, i;
    double s2 = spec_share(Z, L2_SHELL, E, &a2), s3 = spec_share(Z, L3_SHELL, E, &a3), s1 = spec_share(Z, L1_SHELL, E, &a1);
    double r2 = LEAF_RadRate(Z, LB_L2[0]), r3 = LEAF_RadRate(Z, LB_L3[0]), r1 = LEAF_RadRate(Z, LB_L1[0]);
    double g;
    for (i = 1; i < 2; i++) r2 = r2 + LEAF_RadRate(Z, LB_L2[i]);
    for (i = 1; i < 9; i++) r3 = r3 + LEAF_RadRate(Z, LB_L3[i]);
    for (i = 1; i < 4; i++) r1 = r1 + LEAF_RadRate(Z, LB_L1[i]);
    g = s2 * r2 + s3 * r3 + s1 * r1;
    VCANARY("CS_FluorLine LB");
    if (g == 0.0) VASSERT(FAILS(t, error), "CS_FluorLine(LB): no excitable member is an error");
    else if (!LEAFOK_CS_Photo(Z, E)) VASSERT(FAILS(t, error), "CS_FluorLine(LB): undefined photo cross section is an error");
    else VASSERT(SAME(t, g * LEAF_CS_Photo(Z, E)) && NO_ERROR(error), "CS_FluorLine(LB) = sum over its member lines (per sub-shell share x member rates) x photo cross section");
  } else if (cls < K_SHELL || cls > L3_SHELL) {
    VCANARY("CS_FluorLine line of another shell / unknown macro");
    VASSERT(FAILS(t, error), "CS_FluorLine: a line that does not start in K, L1, L2 or L3 is an error");
  } else if (!LEAFOK_RadRate(Z, line)) {
    VCANARY("CS_FluorLine no rate");
    VASSERT(FAILS(t, error), "CS_FluorLine: unavailable radiative rate is an error");
  } else if (!LEAFOK_CS_FluorShell(Z, cls, E)) {
    VASSERT(FAILS(t, error), "CS_FluorLine: undefined shell cross section is an error");
  } else {
    VCANARY("CS_FluorLine defined");
    VASSERT(SAME(t, LEAF_RadRate(Z, line) * LEAF_CS_FluorShell(Z, cls, E)) && NO_ERROR(error),
            "CS_FluorLine = radiative rate x fluorescence cross section of the shell named by the line");
  }
}

/* (a) L-beta;  (b) every int that is not a K/L1/L2/L3 line, a Siegbahn group of those, or LB: symbolic */
LEMMA(lemma_CS_FluorLine)
{
#ifdef FIXED_LINE
  ND_Z(Z); int line = FIXED_LINE; ND_ENERGY(E); ND_ERRSLOT(error);
  check_fluor_line(Z, line, E, -1, error);
#else
  ND_Z(Z); ND_LINE(line); ND_ENERGY(E); ND_ERRSLOT(error);
  VASSUME(line != LB_LINE && spec_line_shell(line) == -1);
  check_fluor_line(Z, line, E, -1, error);
#endif
  ERRSLOT_DONE(error);
}

/* (c) the lines of one shell, enumerated: every macro value of the name-derived block (plus the Siegbahn groups of
 * that shell) is checked with a constant `line`, for all Z and E.  Complete for the class: the block is finite. */
#if !defined(ENUM_LO)
#define ENUM_LO SPEC_K_LINES_LO
#define ENUM_HI SPEC_K_LINES_HI
#define ENUM_CLS K_SHELL
#define ENUM_EXTRA1 KA_LINE
#define ENUM_EXTRA2 KB_LINE
#endif
#ifdef ENUM_NOEXTRA
#undef ENUM_EXTRA1
#undef ENUM_EXTRA2
#endif
LEMMA(lemma_CS_FluorLine_enum)
{
  ND_Z(Z); ND_ENERGY(E); ND_BOOL(with_slot);
  int line;
  for (line = ENUM_LO; line <= ENUM_HI; line++) {
    xrl_error *eo = NULL; xrl_error **error = with_slot ? &eo : NULL;
    VCBMC(g_watch = error;)
    VASSERT(spec_line_shell(line) == ENUM_CLS, "enumerated block is the name-derived block of the shell");
    check_fluor_line(Z, line, E, ENUM_CLS, error);
    VNATIVE(xrl_clear_error(&eo);)
  }
#ifdef ENUM_EXTRA1
  { xrl_error *eo = NULL; xrl_error **error = with_slot ? &eo : NULL; VCBMC(g_watch = error;) check_fluor_line(Z, ENUM_EXTRA1, E, ENUM_CLS, error); VNATIVE(xrl_clear_error(&eo);) }
#endif
#ifdef ENUM_EXTRA2
  { xrl_error *eo = NULL; xrl_error **error = with_slot ? &eo : NULL; VCBMC(g_watch = error;) check_fluor_line(Z, ENUM_EXTRA2, E, ENUM_CLS, error); VNATIVE(xrl_clear_error(&eo);) }
#endif
}
