/* Harness vocabulary: nondeterministic inputs, assertions, canaries - CBMC and native flavours. */
#ifndef VH_H
#define VH_H
#include "vcommon.h"

/* domain kinds for the native sweep (CBMC ignores them: every input ranges over its whole type) */
enum { VK_Z, VK_SHELL, VK_LINE, VK_TRANS, VK_AUGER, VK_INT, VK_BOOL, VK_ENERGY, VK_DOUBLE, VK_ANGLE, VK_SMALLPOS, VK_IDX };

#ifdef VERIF_CBMC
/* uninitialised locals are nondeterministic in CBMC (bodyless nondet functions are rejected by dfcc) */
#define ND_KIND_INT(n, k) int n
#define ND_KIND_DBL(n, k) double n
#define ND_BOOL(n) _Bool n
#define VASSERT(c, name) __CPROVER_assert((c), name)
#ifdef NOCAN
#define VCANARY(name)
#else
#define VCANARY(name) __CPROVER_assert(0, "CANARY " name)
#endif
#define VASSUME(c) __CPROVER_assume(c)
#define VNATIVE(stmt)
#define VCBMC(stmt) stmt
/* K1 harness: the contract's requires clause makes the slot fresh or NULL */
#define K1_ERRSLOT(error) xrl_error **error
#define K1_ERRSLOT_DONE(error)
#else
int vn_int(const char *name, int kind);
double vn_double(const char *name, int kind);
void vn_assert(int ok, const char *name);
void vn_canary(const char *name);
void vn_skip(void);
#define ND_KIND_INT(n, k) int n = vn_int(#n, k)
#define ND_KIND_DBL(n, k) double n = vn_double(#n, k)
#define ND_BOOL(n) int n = vn_int(#n, VK_BOOL)
#define VASSERT(c, name) vn_assert((c) ? 1 : 0, name)
#define VCANARY(name) vn_canary(name)
#define VASSUME(c) do { if (!(c)) { vn_skip(); return; } } while (0)
#define VNATIVE(stmt) stmt
#define VCBMC(stmt)
#define K1_ERRSLOT(error) xrl_error *error##_obj = NULL; xrl_error **error = vn_int(#error "_present", VK_BOOL) ? &error##_obj : NULL
#define K1_ERRSLOT_DONE(error) xrl_clear_error(&error##_obj)
#endif

#define ND_Z(n) ND_KIND_INT(n, VK_Z)
#define ND_SHELL(n) ND_KIND_INT(n, VK_SHELL)
#define ND_LINE(n) ND_KIND_INT(n, VK_LINE)
#define ND_TRANS(n) ND_KIND_INT(n, VK_TRANS)
#define ND_AUGER(n) ND_KIND_INT(n, VK_AUGER)
#define ND_INT(n) ND_KIND_INT(n, VK_INT)
#define ND_ENERGY(n) ND_KIND_DBL(n, VK_ENERGY); VASSUME(V_FINITE(n))
#define ND_FINITE(n) ND_KIND_DBL(n, VK_DOUBLE); VASSUME(V_FINITE(n))
#define ND_ANGLE(n) ND_KIND_DBL(n, VK_ANGLE); VASSUME(V_FINITE(n))

#define LEMMA(name) void name(void)
#endif
