/* UF leaf for the static AugerYield2_prdata (its own lemma is lemma_AugerYield2_prdata) */
double __CPROVER_uninterpreted_yield2(int, int);
double __CPROVER_file_local_pr_data_c_AugerYield2_prdata(int Z, int shell) { return __CPROVER_uninterpreted_yield2(Z, shell); }
