/* C07 (composition stage): the outer CompoundParser and add_compound_data of src/xraylib-parser.c, real bodies.
 *
 * The character-level scanner CompoundParserSimple is replaced by its *assumed contract*: it either fails (0 + exactly
 * one error) or returns 1..NMAXEL elements with strictly ascending atomic numbers in 1..MENDEL_MAX and positive finite
 * atom counts in one malloc'ed array.  (The scanner itself is outside CBMC's practical reach - DESIGN P10 - so the
 * grammar, the rejection classes and the algebraic expansion are NOT decided by this check.)
 * setlocale is a ghost-state model of C11 7.11.1.1; AtomicWeight reads the symbolic table.                          */
#include "config.h"
#include <stdlib.h>
#include <string.h>
#include <locale.h>
#include "xrayglob.h"
#include "xraylib.h"
#include "xraylib-error-private.h"
#ifndef NMAXEL
#define NMAXEL 3
#endif
int g_fail;
static xrl_error g_err_obj;
static void ghost_set(xrl_error **err, xrl_error_code code) { if (err) { __CPROVER_assert(*err == NULL, "no error is stored over an existing one"); g_err_obj.code = code; *err = &g_err_obj; g_fail++; } }
void xrl_set_error_literal(xrl_error **err, xrl_error_code code, const char *message) { __CPROVER_assert(message && message[0], "error message is non-empty"); ghost_set(err, code); }
void xrl_set_error(xrl_error **err, xrl_error_code code, const char *format, ...) { __CPROVER_assert(format && format[0], "error format is non-empty"); ghost_set(err, code); }
double AtomicWeight(int Z, xrl_error **error) { if (Z < 1 || Z > ZMAX || !(AtomicWeight_arr[Z] > 0.0)) { ghost_set(error, XRL_ERROR_INVALID_ARGUMENT); return 0.0; } return AtomicWeight_arr[Z]; }

/* ghost numeric locale: 0 = "C", 1 = the user's locale.  A non-NULL argument installs that locale and returns the NEW
 * name; NULL queries.  The returned string is only valid until the next call (hence modelled as one shared buffer).  */
int g_locale;
static char g_locbuf[6];
char *setlocale(int category, const char *locale)
{
  if (locale != NULL) {
    if (locale[0] == 'C' && locale[1] == 0) g_locale = 0;
    else if (locale[0] == 'u' && locale[1] == 's' && locale[2] == 'e' && locale[3] == 'r' && locale[4] == 0) g_locale = 1;
    else return NULL;
  }
  if (g_locale) { g_locbuf[0] = 'u'; g_locbuf[1] = 's'; g_locbuf[2] = 'e'; g_locbuf[3] = 'r'; g_locbuf[4] = 0; }
  else { g_locbuf[0] = 'C'; g_locbuf[1] = 0; }
  return g_locbuf;
}

struct compoundAtom { int Element; double nAtoms; };
struct compoundAtoms { int nElements; struct compoundAtom *singleElements; };
int g_el[NMAXEL]; double g_cnt[NMAXEL]; int g_n, g_scan_ok;
#ifdef LEMMA_SCAN
int __CPROVER_file_local_xraylib_parser_c_CompoundParserSimple(char s[], struct compoundAtoms *ca, xrl_error **error);   /* the real scanner */
#else
int __CPROVER_file_local_xraylib_parser_c_CompoundParserSimple(char s[], struct compoundAtoms *ca, xrl_error **error)
{
  int i;
  __CPROVER_assert(g_locale == 0, "the scanner (strtod) runs under the C numeric locale");
  if (!g_scan_ok) { ghost_set(error, XRL_ERROR_INVALID_ARGUMENT); return 0; }
  ca->nElements = g_n;
  ca->singleElements = malloc(sizeof(struct compoundAtom) * g_n);
  __CPROVER_assume(ca->singleElements != NULL);
  for (i = 0; i < g_n; i++) { ca->singleElements[i].Element = g_el[i]; ca->singleElements[i].nAtoms = g_cnt[i]; }
  return 1;
}
#endif

void lemma_CompoundParser(void)
{
  char s[2];
  xrl_error *e = NULL;
  struct compoundData *cd;
  int i, n, ok, weightless = 0;
  double molar = 0.0, atoms = 0.0;
#ifdef NEL
  n = NEL;     /* one query per number of elements: constant array sizes keep the queries small */
#endif
#ifdef SCAN_OK
  ok = SCAN_OK;   /* value lemmas: one query per scanner outcome, so that the scanner stub has a single path and the element list it returns is a constant-size object */
#endif
  __CPROVER_assume(n >= 1 && n <= NMAXEL);
  g_n = n; g_scan_ok = ok; s[1] = 0;
  for (i = 0; i < NMAXEL; i++) {
    int z; double c;
    __CPROVER_assume(z >= 1 && z <= MENDEL_MAX && (i == 0 || z > g_el[i - 1]) && c >= 1e-6 && c < 1e6);   /* assumed scanner contract: counts in [1e-6, 1e6) */
    g_el[i] = z; g_cnt[i] = c;
    if (i < n) __CPROVER_assume(!__CPROVER_isnand(AtomicWeight_arr[z]) && AtomicWeight_arr[z] < 1000.0 && (!(AtomicWeight_arr[z] > 0.0) || AtomicWeight_arr[z] >= 1.0));   /* TABLES_WF: atomic weights are absent (<= 0) or in [1, 1000) (audited) */
    if (i < n && !(AtomicWeight_arr[z] > 0.0)) weightless = 1;
  }
  g_fail = 0; g_locale = 1;
  cd = CompoundParser(s, &e);
  __CPROVER_assert(g_locale == 1, "parsing leaves the numeric locale as it found it");
  __CPROVER_assert((cd != NULL) == (e == NULL) && g_fail == (cd == NULL ? 1 : 0), "NULL if and only if exactly one error was stored");
  if (!ok) { __CPROVER_assert(cd == NULL, "a formula the scanner rejects is rejected"); }
  else if (weightless) { __CPROVER_assert(cd == NULL, "a formula with an element that has no atomic weight is rejected"); __CPROVER_assert(0, "CANARY weightless element"); }
  else {
    __CPROVER_assert(cd != NULL, "a formula the scanner accepts, all of whose elements have an atomic weight, is accepted");
    if (cd != NULL) {
      __CPROVER_assert(cd->nElements == n, "number of elements");
      /* atomic weights as the public accessor reports them (same call as the code makes: keeps both sides syntactically equal) */
      for (i = 0; i < n; i++) { molar += AtomicWeight(g_el[i], NULL) * g_cnt[i]; atoms += g_cnt[i]; }
#ifdef VALUE_LEMMA
      __CPROVER_assert(__CPROVER_equal(cd->molarMass, molar) && __CPROVER_equal(cd->nAtomsAll, atoms), "molar mass and total atom count are the sums over the elements");
#endif
      __CPROVER_assert(cd->molarMass > 0.0 && cd->nAtomsAll > 0.0, "molar mass and total atom count are positive");
      for (i = 0; i < n; i++) {
        __CPROVER_assert(cd->Elements[i] == g_el[i] && (i == 0 || cd->Elements[i] > cd->Elements[i - 1]), "elements strictly ascending, as scanned");
        __CPROVER_assert(cd->nAtoms[i] == g_cnt[i], "atom counts as scanned");
#ifdef VALUE_LEMMA
        __CPROVER_assert(__CPROVER_equal(cd->massFractions[i], AtomicWeight(g_el[i], NULL) * g_cnt[i] / molar), "mass fraction = count x atomic weight / molar mass");
#endif
        __CPROVER_assert(!__CPROVER_isnand(cd->massFractions[i]), "mass fractions are numbers");
      }
      FreeCompoundData(cd);
      __CPROVER_assert(0, "CANARY accepted formula");
    }
  }
}

void lemma_CompoundParser_null(void)
{
  xrl_error *e = NULL;
  g_fail = 0; g_locale = 1;
  __CPROVER_assert(CompoundParser(NULL, &e) == NULL && e != NULL && g_fail == 1 && g_locale == 1, "NULL formula: NULL, one error, locale untouched");
  __CPROVER_assert(0, "CANARY null formula");
}

#if defined(LEMMA_ADD) || defined(LEMMA_SCAN)
/* realloc, assumed contract in executable form.  The call sites of xraylib-parser.c pass the element size of their pointer
 * argument (harness/realloc_typed.h, force-included): an element-wise typed copy keeps the constant formula text visible
 * to the symbolic execution, which CBMC's own model (whole-array copy) does not                                          */
void *xrlv_realloc(void *p, size_t n, size_t elem)
{
  size_t i; void *q;
  /* one typed allocation site per possible length: objects of constant size and known element type stay field-wise scalars
   * (an object of symbolic size becomes an unbounded byte array and every record access a byte-level extraction)         */
  if (elem == sizeof(char *)) {
    __CPROVER_assert(n % sizeof(char *) == 0 && n >= sizeof(char *) && n <= 8 * sizeof(char *), "harness: pointer lists of 1..8 entries");
    if (n == 1 * sizeof(char *)) q = malloc(1 * sizeof(char *)); else if (n == 2 * sizeof(char *)) q = malloc(2 * sizeof(char *));
    else if (n == 3 * sizeof(char *)) q = malloc(3 * sizeof(char *)); else if (n == 4 * sizeof(char *)) q = malloc(4 * sizeof(char *));
    else if (n == 5 * sizeof(char *)) q = malloc(5 * sizeof(char *)); else if (n == 6 * sizeof(char *)) q = malloc(6 * sizeof(char *));
    else if (n == 7 * sizeof(char *)) q = malloc(7 * sizeof(char *)); else q = malloc(8 * sizeof(char *));
    __CPROVER_assume(q != NULL);
    if (p == NULL) return q;
    for (i = 0; (i + 1) * sizeof(char *) <= n && (i + 1) * sizeof(char *) <= __CPROVER_OBJECT_SIZE(p); i++) ((char **)q)[i] = ((char **)p)[i];
  } else if (elem == sizeof(int)) {
    __CPROVER_assert(n % sizeof(int) == 0 && n >= sizeof(int) && n <= 6 * sizeof(int), "harness: int lists of 1..6 entries");
    if (n == 1 * sizeof(int)) q = malloc(1 * sizeof(int)); else if (n == 2 * sizeof(int)) q = malloc(2 * sizeof(int));
    else if (n == 3 * sizeof(int)) q = malloc(3 * sizeof(int)); else if (n == 4 * sizeof(int)) q = malloc(4 * sizeof(int));
    else if (n == 5 * sizeof(int)) q = malloc(5 * sizeof(int)); else q = malloc(6 * sizeof(int));
    __CPROVER_assume(q != NULL);
    if (p == NULL) return q;
    for (i = 0; (i + 1) * sizeof(int) <= n && (i + 1) * sizeof(int) <= __CPROVER_OBJECT_SIZE(p); i++) ((int *)q)[i] = ((int *)p)[i];
  } else {
    __CPROVER_assert(elem == sizeof(struct compoundAtom), "harness: realloc of pointer lists, int lists and element lists only");
    __CPROVER_assert(n % sizeof(struct compoundAtom) == 0 && n >= sizeof(struct compoundAtom) && n <= 5 * sizeof(struct compoundAtom), "harness: element lists of 1..5 records");
    if (n == 1 * sizeof(struct compoundAtom)) q = malloc(1 * sizeof(struct compoundAtom)); else if (n == 2 * sizeof(struct compoundAtom)) q = malloc(2 * sizeof(struct compoundAtom));
    else if (n == 3 * sizeof(struct compoundAtom)) q = malloc(3 * sizeof(struct compoundAtom)); else if (n == 4 * sizeof(struct compoundAtom)) q = malloc(4 * sizeof(struct compoundAtom));
    else q = malloc(5 * sizeof(struct compoundAtom));
    __CPROVER_assume(q != NULL);
    if (p == NULL) return q;
    for (i = 0; (i + 1) * sizeof(struct compoundAtom) <= n && (i + 1) * sizeof(struct compoundAtom) <= __CPROVER_OBJECT_SIZE(p); i++) ((struct compoundAtom *)q)[i] = ((struct compoundAtom *)p)[i];
  }
  free(p);
  return q;
}
/* calloc of a list of doubles, same idea: one typed allocation site per length, zero-filled */
void *xrlv_calloc(size_t nmemb, size_t elem)
{
  double *q; size_t i;
  __CPROVER_assert(elem == sizeof(double) && nmemb >= 1 && nmemb <= 6, "harness: calloc of 1..6 doubles");
  if (nmemb == 1) q = malloc(1 * sizeof(double)); else if (nmemb == 2) q = malloc(2 * sizeof(double)); else if (nmemb == 3) q = malloc(3 * sizeof(double));
  else if (nmemb == 4) q = malloc(4 * sizeof(double)); else if (nmemb == 5) q = malloc(5 * sizeof(double)); else q = malloc(6 * sizeof(double));
  __CPROVER_assume(q != NULL);
  for (i = 0; i < nmemb && i < 6; i++) q[i] = 0.0;
  return q;
}
#endif

/* ------------------------------------------------------------------ add_compound_data (bounded shapes NA_EL x NB_EL) */
#ifdef LEMMA_ADD
#ifndef NA_EL
#define NA_EL 2
#define NB_EL 2
#endif
void qsort(void *base, size_t n, size_t sz, int (*cmp)(const void *, const void *))
{   /* assumed libc contract in executable form: sorted permutation of exactly the range passed */
  int *v = (int *)base, t; size_t i, j;
  __CPROVER_assert(sz == sizeof(int), "qsort is called on the int element list");
  for (i = 1; i < n; i++) for (j = i; j > 0; j--) if (cmp(&v[j - 1], &v[j]) > 0) { t = v[j - 1]; v[j - 1] = v[j]; v[j] = t; }
}
void lemma_add_compound_data(void)
{
  int ea[NA_EL], eb[NB_EL]; double fa[NA_EL], fb[NB_EL], na[NA_EL], nb[NB_EL];
  struct compoundData A, B, *r;
  double wA, wB;
  int i, j, k, uniq = NA_EL;
  for (i = 0; i < NA_EL; i++) { int z; __CPROVER_assume(z >= 1 && z <= MENDEL_MAX && (i == 0 || z > ea[i - 1])); ea[i] = z; }
  for (i = 0; i < NB_EL; i++) { int z; __CPROVER_assume(z >= 1 && z <= MENDEL_MAX && (i == 0 || z > eb[i - 1])); eb[i] = z; }
  A.nElements = NA_EL; A.Elements = ea; A.massFractions = fa; A.nAtoms = na;
  B.nElements = NB_EL; B.Elements = eb; B.massFractions = fb; B.nAtoms = nb;
  for (j = 0; j < NB_EL; j++) { int in_a = 0; for (i = 0; i < NA_EL; i++) if (ea[i] == eb[j]) in_a = 1; if (!in_a) uniq++; }
  r = add_compound_data(A, wA, B, wB);
  __CPROVER_assert(r != NULL && r->nElements == uniq, "combining two compositions yields exactly the union of their elements");
  for (k = 0; k < NA_EL + NB_EL; k++) if (k < r->nElements) {
    int z = r->Elements[k], in_a = 0, in_b = 0; double e = 0.0;
    __CPROVER_assert(k == 0 || z > r->Elements[k - 1], "the combined elements are strictly ascending");
    for (i = 0; i < NA_EL; i++) if (ea[i] == z) in_a = 1;
    for (j = 0; j < NB_EL; j++) if (eb[j] == z) in_b = 1;
    __CPROVER_assert(in_a || in_b, "every combined element comes from one of the two compositions");
    /* fraction = wA x fA + wB x fB over the entries of A and B with this atomic number (A first when it is at least as long as B) */
    if (NA_EL >= NB_EL) { for (i = 0; i < NA_EL; i++) if (z == ea[i]) e += fa[i] * wA; for (j = 0; j < NB_EL; j++) if (z == eb[j]) e += fb[j] * wB; }
    else { for (j = 0; j < NB_EL; j++) if (z == eb[j]) e += fb[j] * wB; for (i = 0; i < NA_EL; i++) if (z == ea[i]) e += fa[i] * wA; }
#ifndef ELEMENTS_ONLY
    __CPROVER_assert(__CPROVER_equal(r->massFractions[k], e), "combined mass fraction = wA x fA + wB x fB");
#endif
  }
  for (i = 0; i < NA_EL; i++) { int f = 0; for (k = 0; k < NA_EL + NB_EL; k++) if (k < r->nElements && r->Elements[k] == ea[i]) f = 1; __CPROVER_assert(f, "every element of the first composition is in the result"); }
  for (j = 0; j < NB_EL; j++) { int f = 0; for (k = 0; k < NA_EL + NB_EL; k++) if (k < r->nElements && r->Elements[k] == eb[j]) f = 1; __CPROVER_assert(f, "every element of the second composition is in the result"); }
  FreeCompoundData(r);
  __CPROVER_assert(0, "CANARY add_compound_data end");
}
#endif

/* ------------------------------------------------------------------ the real scanner on fixed formula SHAPES (bounded)
 * The formula text is a constant (letters A..D stand for element symbols, digits for subscripts); what is symbolic is
 * the atomic number behind each letter (any of 1..MENDEL_MAX, letters may coincide, or "unknown symbol") and the value
 * of each subscript (any number in [1e-6, 1e6), or zero).  libc is replaced by its assumed contract in executable form:
 * bsearch REQUIRES an ascending array (C11 7.22.5.1) and asserts it; qsort sorts exactly the range passed; strtod
 * converts the whole numeral; the symbol table lookup returns the atomic number behind the letter.                    */
#ifdef LEMMA_SCAN
#include <string.h>
#ifndef SHAPE
#define SHAPE 0
#endif
static const char *const g_shapes[] = { "A", "AB", "B3A", "AB2A", "(AB)2", "AbCdB3", "((A))", "A(AB)", "C(BA)", "A(BC)2", "(AB)(CA)3", "Ab2(CdA)", "A2.5(B0.5A)4", /*THOROUGH*/ "B(A(CD)2)3", "D(CA)B(DA)" };
int g_z[4], g_known[4], g_zero_seen, g_unknown_seen;
static struct MendelElement g_me;
void *bsearch(const void *key, const void *base, size_t n, size_t sz, int (*cmp)(const void *, const void *))
{
  size_t i;
  if (base == (const void *)MendelArraySorted) {   /* symbol table lookup */
    const char *k = (const char *)key; int idx = k[0] - 'A';
    __CPROVER_assert(idx >= 0 && idx < 4, "harness: letters A..D only");
    if (!g_known[idx]) { g_unknown_seen = 1; return NULL; }
    g_me.Zatom = g_z[idx]; g_me.name = NULL;
    return &g_me;
  }
  __CPROVER_assert(sz == sizeof(struct compoundAtom), "bsearch on the element list");
  const struct compoundAtom *v = (const struct compoundAtom *)base;
  for (i = 1; i < n; i++) __CPROVER_assert(cmp(&v[i - 1], &v[i]) < 0, "bsearch is only called on a strictly ascending element list");
  for (i = 0; i < n; i++) if (cmp(key, &v[i]) == 0) return (void *)&v[i];
  return NULL;
}
void qsort(void *base, size_t n, size_t sz, int (*cmp)(const void *, const void *))
{
  struct compoundAtom *v = (struct compoundAtom *)base, t; size_t i, j;
  __CPROVER_assert(sz == sizeof(struct compoundAtom), "qsort on the element list");
  for (i = 1; i < n; i++) for (j = i; j > 0; j--) if (cmp(&v[j - 1], &v[j]) > 0) { t = v[j - 1]; v[j - 1] = v[j]; v[j] = t; }
}
char *strndup(const char *s, size_t n)
{
  size_t l = 0, i; char *d;
  while (l < n && s[l]) l++;
  d = malloc(l + 1); __CPROVER_assume(d != NULL);
  for (i = 0; i < l; i++) d[i] = s[i];
  d[l] = 0;
  return d;
}
#ifdef CONCRETE_SUBSCRIPTS
/* counts lemma: strtod converts the short numerals of the shape list exactly (digits, at most one dot; every value used
 * is a dyadic rational, so digit accumulation and the final division are exact)                                      */
double strtod(const char *s, char **end)
{
  double v = 0.0, scale = 1.0; int i, dot = 0;
  __CPROVER_assert(g_locale == 0, "strtod runs under the C numeric locale");
  for (i = 0; s[i]; i++) { if (s[i] == '.') { dot = 1; continue; } v = v * 10.0 + (double)(s[i] - '0'); if (dot) scale = scale * 10.0; }
  *end = (char *)s + i;
  return v / scale;
}
struct occ { int letter; double w; };
static const struct occ g_occ[] = OCC;   /* every symbol occurrence of the shape with its multiplier: generated by an independent recursive-descent evaluator (props/C07.py) */
#else
double strtod(const char *s, char **end)
{
  double v;
  __CPROVER_assert(g_locale == 0, "strtod runs under the C numeric locale");
  __CPROVER_assume(v == 0.0 || (v >= 1e-6 && v < 1e6));
  if (v == 0.0) g_zero_seen = 1;
  *end = (char *)s + strlen(s);
  return v;
}
#endif
void lemma_scanner_shape(void)
{
  char buf[16];
  const char *f = g_shapes[SHAPE];
  struct compoundAtoms ca = {0, NULL};
  xrl_error *e = NULL;
  int i, k, r, used[4] = {0, 0, 0, 0}, any_unknown = 0;
  for (i = 0; f[i]; i++) { buf[i] = f[i]; if (f[i] >= 'A' && f[i] <= 'D') used[f[i] - 'A'] = 1; }
  buf[i] = 0;
  for (k = 0; k < 4; k++) { int z, kn; __CPROVER_assume(z >= 1 && z <= MENDEL_MAX); g_z[k] = z; g_known[k] = kn != 0; if (used[k] && !g_known[k]) any_unknown = 1; }
  g_fail = 0; g_locale = 0; g_zero_seen = 0; g_unknown_seen = 0;
  r = __CPROVER_file_local_xraylib_parser_c_CompoundParserSimple(buf, &ca, &e);
  __CPROVER_assert((r == 1) == (e == NULL) && g_fail == (r == 1 ? 0 : 1), "the scanner fails if and only if exactly one error was stored");
  __CPROVER_assert((r == 0) == (any_unknown || g_zero_seen), "a well-formed formula is rejected exactly when a symbol is unknown or a subscript is zero");
  if (r == 1) {
    __CPROVER_assert(ca.nElements >= 1 && ca.singleElements != NULL, "an accepted formula has elements");
    for (i = 0; i < 4; i++) if (i < ca.nElements) {
      int in = 0;
      __CPROVER_assert(i == 0 || ca.singleElements[i].Element > ca.singleElements[i - 1].Element, "elements strictly ascending, no duplicates");
      for (k = 0; k < 4; k++) if (used[k] && g_z[k] == ca.singleElements[i].Element) in = 1;
      __CPROVER_assert(in, "every element of the result occurs in the formula");
#ifndef NO_COUNTS
      __CPROVER_assert(ca.singleElements[i].nAtoms > 0.0, "atom counts are positive");   /* shapes without subscripts only: products of symbolic subscripts do not finish */
#endif
    }
#ifdef CONCRETE_SUBSCRIPTS
    for (i = 0; i < 4; i++) if (i < ca.nElements) {
      double expect = 0.0; int o;
      for (o = 0; o < NOCC; o++) if (g_z[g_occ[o].letter] == ca.singleElements[i].Element) expect += g_occ[o].w;
      __CPROVER_assert(ca.singleElements[i].nAtoms == expect, "atom count of every element = the algebraic expansion of the formula (sum over its occurrences of the product of the enclosing multipliers)");
    }
#endif
    __CPROVER_assert(ca.nElements <= 4, "no more elements than distinct symbols");
    for (k = 0; k < 4; k++) if (used[k]) { int in = 0; for (i = 0; i < 4; i++) if (i < ca.nElements && ca.singleElements[i].Element == g_z[k]) in = 1; __CPROVER_assert(in, "every element of the formula occurs in the result"); }
    __CPROVER_assert(0, "CANARY accepted shape");
  }
}
#endif
