/* C15: built-in catalogues.  The real static initialisers are compiled into this translation unit by including the
 * library's own catalogue sources (so the static tables and the real lookup bodies are what CBMC executes); every loop
 * below runs over concrete data and is unwound completely (K3: exhaustive symbolic execution of constant data).      */
#include "config.h"
#include <string.h>
#include <ctype.h>
#include <stdlib.h>
#include "xraylib.h"
#include "xrayglob.h"
#include "xraylib-error-private.h"

/* ghost error setters (the printf-style setter is variadic; its real body is covered by the error-object lemmas) */
int g_fail;
static xrl_error g_err_obj;
void xrl_set_error_literal(xrl_error **err, xrl_error_code code, const char *message) {
  __CPROVER_assert(message != NULL && message[0] != 0, "error message is non-empty");
  if (err) { __CPROVER_assert(*err == NULL, "no error is stored over an existing one"); g_err_obj.code = code; *err = &g_err_obj; g_fail++; }
}
void xrl_set_error(xrl_error **err, xrl_error_code code, const char *format, ...) {
  __CPROVER_assert(format != NULL && format[0] != 0, "error format is non-empty");
  if (err) { __CPROVER_assert(*err == NULL, "no error is stored over an existing one"); g_err_obj.code = code; *err = &g_err_obj; g_fail++; }
}
/* assumed libc contract of lfind (linear search): NULL, or the first element for which compar(key, element) == 0 */
void *lfind(const void *key, const void *base, size_t *nmemb, size_t size, int (*compar)(const void *, const void *)) {
  size_t i;
  for (i = 0; i < *nmemb; i++) { const char *e = (const char *)base + i * size; if (compar(key, e) == 0) return (void *)e; }
  return NULL;
}
#define main xrl_nist_unused_main
#include "xraylib-nist-compounds.c"
#include "xraylib-radionuclides.c"
#include "spec_catalog.h"

/* macro name of a catalogue name: upper-case alphanumerics; every run of spaces / hyphens -> one '_' (none at the end);
 * all other punctuation (commas, slashes, parentheses) is dropped */
static int norm_eq(const char *name, const char *macro_suffix)
{
  int i = 0, j = 0, pending = 0;
  for (i = 0; name[i]; i++) {
    unsigned char c = (unsigned char)name[i];
    int alnum = (c >= '0' && c <= '9') || (c >= 'A' && c <= 'Z') || (c >= 'a' && c <= 'z');
    if (alnum) {
      if (pending && j > 0) { if (macro_suffix[j] != '_') return 0; j++; }
      pending = 0;
      if (c >= 'a' && c <= 'z') c = c - 'a' + 'A';
      if (macro_suffix[j] != (char)c) return 0;
      j++;
    } else if (c == ' ' || c == '-') pending = 1;
  }
  return macro_suffix[j] == 0;
}

void k3_nist(void)
{
  int i, k;
  __CPROVER_assert(nCompoundDataNISTList == SPEC_NNIST && sizeof(compoundDataNISTList) / sizeof(compoundDataNISTList[0]) == SPEC_NNIST, "NIST: catalogue size equals the number of published index macros");
  for (i = 0; i < SPEC_NNIST; i++) {
    const struct compoundDataNIST *c = &compoundDataNISTList[i];
    double sum = 0.0;
    __CPROVER_assert(c->name != NULL && c->name[0] != 0 && c->nElements >= 1 && c->density > 0.0, "NIST entry: name, at least one element, positive density");
    for (k = 0; k < c->nElements; k++) {
      __CPROVER_assert(c->Elements[k] >= 1 && c->Elements[k] <= ZMAX && (k == 0 || c->Elements[k] > c->Elements[k - 1]), "NIST entry: elements valid and strictly ascending");
      __CPROVER_assert(c->massFractions[k] > 0.0, "NIST entry: mass fractions positive");
      sum += c->massFractions[k];
    }
    __CPROVER_assert(sum > 1.0 - 1e-4 && sum < 1.0 + 1e-4, "NIST entry: mass fractions sum to 1 (six printed decimals)");
    __CPROVER_assert(norm_eq(c->name, SPEC_NIST_MACRO[i]), "NIST: the index macro published for this position names this entry");
  }
  for (i = 0; i < SPEC_NNIST; i++) for (k = i + 1; k < SPEC_NNIST; k++)
    __CPROVER_assert(strcmp(compoundDataNISTList[i].name, compoundDataNISTList[k].name) != 0, "NIST: names are unique");
  __CPROVER_assert(0, "CANARY k3_nist end");
}

void k3_nuclides(void)
{
  int i, k;
  __CPROVER_assert(nNuclideDataList == SPEC_NNUCLIDE && sizeof(nuclideDataList) / sizeof(nuclideDataList[0]) == SPEC_NNUCLIDE, "nuclides: catalogue size equals the number of published index macros");
  for (i = 0; i < SPEC_NNUCLIDE; i++) {
    const struct radioNuclideData *r = &nuclideDataList[i];
    char buf[16]; int a = r->A, n = 0, d;
    const char *sym;
    __CPROVER_assert(r->A == r->Z + r->N && r->Z >= 1 && r->Z <= MENDEL_MAX && r->Z_xray >= 1 && r->Z_xray <= MENDEL_MAX && r->nXrays >= 1 && r->nGammas >= 1, "nuclide entry: A = Z + N, valid Z and daughter Z");
    /* name == decimal(A) followed by the symbol of Z */
    for (d = 100; d >= 1; d /= 10) if (a >= d || n > 0 || d == 1) { buf[n++] = '0' + (a / d) % 10; }
    sym = MendelArray[r->Z - 1].name;
    for (k = 0; sym[k]; k++) buf[n++] = sym[k];
    buf[n] = 0;
    __CPROVER_assert(strcmp(buf, r->name) == 0, "nuclide entry: name is the mass number followed by the symbol of Z");
    __CPROVER_assert(norm_eq(r->name, SPEC_NUCLIDE_MACRO[i]), "nuclides: the index macro published for this position names this entry");
    for (k = 0; k < r->nXrays; k++) __CPROVER_assert(r->XrayLines[k] < 0 && r->XrayLines[k] >= -LINENUM && r->XrayIntensities[k] > 0.0, "nuclide entry: X-ray lines are valid single-line macros with positive intensity");
    for (k = 0; k < r->nGammas; k++) __CPROVER_assert(r->GammaEnergies[k] > 0.0 && r->GammaIntensities[k] > 0.0, "nuclide entry: gamma energies and intensities positive");
  }
  for (i = 0; i < MENDEL_MAX; i++) {
    __CPROVER_assert(MendelArray[i].Zatom == i + 1 && MendelArray[i].name != NULL && MendelArray[i].name[0] != 0, "element table: entry i is element i+1 with a symbol");
    for (k = i + 1; k < MENDEL_MAX; k++) __CPROVER_assert(strcmp(MendelArray[i].name, MendelArray[k].name) != 0, "element table: symbols are unique");
  }
  __CPROVER_assert(0, "CANARY k3_nuclides end");
}

/* lookups: by index returns an independent deep copy equal field by field to entry i; out of range -> NULL + one error;
 * by name finds the entry with that name (lfind contract); list in catalogue order; nothing is left allocated */
void lemma_nist_lookup(void)
{
  int i, k, bad;
  xrl_error *e = NULL;
  for (i = 0; i < SPEC_NNIST; i++) {
    struct compoundDataNIST *c = GetCompoundDataNISTByIndex(i, &e);
    const struct compoundDataNIST *t = &compoundDataNISTList[i];
    __CPROVER_assert(c != NULL && e == NULL, "NIST by index: a valid index succeeds without error");
    __CPROVER_assert(c != t && c->name != t->name && c->Elements != t->Elements && c->massFractions != t->massFractions, "NIST by index: the result shares no memory with the catalogue");
    __CPROVER_assert(strcmp(c->name, t->name) == 0 && c->nElements == t->nElements && c->density == t->density, "NIST by index: name, element count and density equal entry i");
    for (k = 0; k < t->nElements; k++) __CPROVER_assert(c->Elements[k] == t->Elements[k] && c->massFractions[k] == t->massFractions[k], "NIST by index: elements and fractions equal entry i");
    FreeCompoundDataNIST(c);
  }
  __CPROVER_assume(bad < 0 || bad >= SPEC_NNIST);
  g_fail = 0;
  __CPROVER_assert(GetCompoundDataNISTByIndex(bad, &e) == NULL && e != NULL && g_fail == 1, "NIST by index: out of range is NULL and exactly one error");
  __CPROVER_assert(0, "CANARY nist lookup end");
}
#ifndef NAME_LO
#define NAME_LO 0
#define NAME_HI 7
#endif
void lemma_nist_byname(void)
{
  int i;
  xrl_error *e = NULL;
  for (i = NAME_LO; i <= NAME_HI && i < SPEC_NNIST; i++) {
    struct compoundDataNIST *c = GetCompoundDataNISTByName(compoundDataNISTList[i].name, &e);
    __CPROVER_assert(c != NULL && e == NULL && strcmp(c->name, compoundDataNISTList[i].name) == 0 && c->density == compoundDataNISTList[i].density && c->nElements == compoundDataNISTList[i].nElements, "NIST by name: describes the same entry as by index");
    FreeCompoundDataNIST(c);
  }
  g_fail = 0;
  __CPROVER_assert(GetCompoundDataNISTByName("no such compound", &e) == NULL && e != NULL && g_fail == 1, "NIST by name: unknown name is NULL and exactly one error");
  __CPROVER_assert(0, "CANARY nist byname end");
}
void lemma_nist_null_name(void)
{
  xrl_error *e = NULL;
  g_fail = 0;
  __CPROVER_assert(GetCompoundDataNISTByName(NULL, &e) == NULL && e != NULL && g_fail == 1, "NIST by name: NULL name is NULL and exactly one error");
  __CPROVER_assert(0, "CANARY nist null name end");
}
void lemma_nuclide_lookup(void)
{
  int i, k, bad;
  xrl_error *e = NULL;
  for (i = 0; i < SPEC_NNUCLIDE; i++) {
    struct radioNuclideData *c = GetRadioNuclideDataByIndex(i, &e);
    const struct radioNuclideData *t = &nuclideDataList[i];
    __CPROVER_assert(c != NULL && e == NULL, "nuclide by index: a valid index succeeds without error");
    __CPROVER_assert(c != t && c->name != t->name && c->XrayLines != t->XrayLines && c->XrayIntensities != t->XrayIntensities && c->GammaEnergies != t->GammaEnergies && c->GammaIntensities != t->GammaIntensities, "nuclide by index: the result shares no memory with the catalogue");
    __CPROVER_assert(strcmp(c->name, t->name) == 0 && c->Z == t->Z && c->A == t->A && c->N == t->N && c->Z_xray == t->Z_xray && c->nXrays == t->nXrays && c->nGammas == t->nGammas, "nuclide by index: scalar fields equal entry i");
    for (k = 0; k < t->nXrays; k++) __CPROVER_assert(c->XrayLines[k] == t->XrayLines[k] && c->XrayIntensities[k] == t->XrayIntensities[k], "nuclide by index: X-ray lines equal entry i");
    for (k = 0; k < t->nGammas && k < 30; k++) __CPROVER_assert(c->GammaEnergies[k] == t->GammaEnergies[k] && c->GammaIntensities[k] == t->GammaIntensities[k], "nuclide by index: gammas equal entry i");
    FreeRadioNuclideData(c);
  }
  __CPROVER_assume(bad < 0 || bad >= SPEC_NNUCLIDE);
  g_fail = 0;
  __CPROVER_assert(GetRadioNuclideDataByIndex(bad, &e) == NULL && e != NULL && g_fail == 1, "nuclide by index: out of range is NULL and exactly one error");
  e = NULL; g_fail = 0;
  for (i = 0; i < SPEC_NNUCLIDE; i++) {
    struct radioNuclideData *c = GetRadioNuclideDataByName(nuclideDataList[i].name, &e);
    __CPROVER_assert(c != NULL && e == NULL && c->A == nuclideDataList[i].A && c->Z == nuclideDataList[i].Z, "nuclide by name: describes the same entry as by index");
    FreeRadioNuclideData(c);
  }
  __CPROVER_assert(GetRadioNuclideDataByName(NULL, &e) == NULL && e != NULL && g_fail == 1, "nuclide by name: NULL name is NULL and exactly one error");
  __CPROVER_assert(0, "CANARY nuclide lookup end");
}
