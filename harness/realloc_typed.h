/* force-included (-include) into src/xraylib-parser.c for the C07 scanner / add_compound_data lemmas only: every realloc
 * and calloc call additionally passes the size of the element its pointer argument (resp. its element-size argument)
 * refers to, so that the executable contracts in harness/h_parser.c can allocate and copy element-wise with the right type
 * (CBMC's own models allocate a byte array of symbolic size and copy it as one array, which loses every constant and
 * turns each record access into a byte-level extraction).  Nothing else in the translation unit changes.             */
#ifndef XRLV_REALLOC_TYPED_H
#define XRLV_REALLOC_TYPED_H
#include <stdlib.h>
void *xrlv_realloc(void *p, size_t n, size_t elem);
void *xrlv_calloc(size_t nmemb, size_t elem);
#define realloc(p, n) xrlv_realloc((p), (n), sizeof(*(p)))
#define calloc(nmemb, elem) xrlv_calloc((nmemb), (elem))
#endif
