/* force-included (-include) into src/xraylib-parser.c for the C07 scanner lemmas only: every realloc call additionally
 * passes the size of the element its pointer argument points to, so that the executable contract of realloc in
 * harness/h_parser.c can copy element-wise with the right type (CBMC's own model copies the object as one array and
 * loses the constant formula text).  Nothing else in the translation unit changes.                                   */
#ifndef XRLV_REALLOC_TYPED_H
#define XRLV_REALLOC_TYPED_H
#include <stdlib.h>
void *xrlv_realloc(void *p, size_t n, size_t elem);
#define realloc(p, n) xrlv_realloc((p), (n), sizeof(*(p)))
#endif
