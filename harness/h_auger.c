/* K2 lemmas for C11: the derivation of the shipped Auger yields and rates from the raw tables
 * (static functions of the build-time generator src/pr_data.c, reached with goto-cc --export-file-local-symbols).
 * Specification from the statement + the macro names (gen/spec_auger.h).  No native twin: the functions are
 * static and the raw tables are not part of the library.                                                      */
#include "vh.h"
#include "vstub.h"
#include "leaves.h"
#include "spec_auger.h"

extern double Auger_Transition_Total[ZMAX+1][SHELLNUM_A];
extern double Auger_Transition_Individual[ZMAX+1][AUGERNUM];
double __CPROVER_file_local_pr_data_c_AugerYield_prdata(int Z, int shell);
double __CPROVER_file_local_pr_data_c_AugerYield2_prdata(int Z, int shell);
double __CPROVER_file_local_pr_data_c_AugerRate_prdata(int Z, int auger_trans);
#define AugerYield_prdata __CPROVER_file_local_pr_data_c_AugerYield_prdata
#define AugerYield2_prdata __CPROVER_file_local_pr_data_c_AugerYield2_prdata
#define AugerRate_prdata __CPROVER_file_local_pr_data_c_AugerRate_prdata

#ifndef SH
#define SH K
#endif
#define CAT2(a, b) a##b
#define CAT(a, b) CAT2(a, b)
#define SHELL_MACRO CAT(SH, _SHELL)

/* Auger yield = 1 - fluorescence yield - sum of the shell's Coster-Kronig probabilities */
LEMMA(lemma_AugerYield_prdata)
{
  ND_Z(Z);
  int i;
  double r = AugerYield_prdata(Z, SHELL_MACRO);
  if (!Z_OK(Z)) { VASSERT(r == 0.0, "AugerYield derivation: Z out of range gives no yield"); }
  else if (!LEAFOK_FluorYield(Z, SHELL_MACRO)) { VASSERT(r == 0.0, "AugerYield derivation: no fluorescence yield tabulated gives no Auger yield"); }
  else {
    double e = 1.0 - LEAF_FluorYield(Z, SHELL_MACRO);
    for (i = 0; i < CAT(SPEC_NCKTRANS_, SH); i++) e -= LEAF_CosKronTransProb(Z, CAT(SPEC_CKTRANS_, SH)[i]);
    VCANARY("AugerYield derivation defined");
    VASSERT(SAME(r, e), "Auger yield = 1 - fluorescence yield - sum of the shell's Coster-Kronig probabilities");
  }
}

/* total non-radiative rate of the shell net of its Coster-Kronig-type transitions */
static double spec_yield2(int Z, int n, const int *ck, int shell)
{
  int i;
  double e = Auger_Transition_Total[Z][shell];
  for (i = 0; i < n; i++) e -= Auger_Transition_Individual[Z][ck[i]];
  return e;
}

LEMMA(lemma_AugerYield2_prdata)
{
  ND_Z(Z);
  double r = AugerYield2_prdata(Z, SHELL_MACRO);
  if (!Z_OK(Z)) { VASSERT(r == 0.0, "net non-radiative total: Z out of range gives 0"); }
  else {
    VCANARY("AugerYield2 derivation defined");
    VASSERT(SAME(r, spec_yield2(Z, CAT(SPEC_NCK_, SH), CAT(SPEC_CK_, SH), SHELL_MACRO)),
            "net non-radiative total = shell total minus all Coster-Kronig-type transitions of the shell (by name)");
  }
}

/* Auger rate of every macro of one shell block, enumerated with a constant macro; AugerYield2_prdata is a UF leaf here */
double __CPROVER_uninterpreted_yield2(int, int);
LEMMA(lemma_AugerRate_prdata)
{
  ND_Z(Z);
  int t;
#ifndef T_LO
#define T_LO CAT(CAT(SPEC_AUGER_, SH), _LO)
#define T_HI CAT(CAT(SPEC_AUGER_, SH), _HI)
#endif
  VASSERT(T_LO >= CAT(CAT(SPEC_AUGER_, SH), _LO) && T_HI <= CAT(CAT(SPEC_AUGER_, SH), _HI), "chunk lies inside the shell block");
  for (t = T_LO; t <= T_HI; t++) {
    double r = AugerRate_prdata(Z, t);
    VASSERT(SPEC_AUGER_SHELL[t] == SHELL_MACRO, "enumerated block is the name-derived block of the shell");
    if (!Z_OK(Z) || SPEC_AUGER_CK[t]) {
      VASSERT(r == 0.0, "Auger rate: Coster-Kronig-type transitions (by name) and invalid Z are reported as unavailable");
    } else if (Auger_Transition_Individual[Z][t] == 0.0) {
      VASSERT(r == 0.0, "Auger rate: no raw rate gives no rate");
    } else {
      double y2 = __CPROVER_uninterpreted_yield2(Z, SHELL_MACRO);
      if (y2 < 1E-8) VASSERT(r == 0.0, "Auger rate: vanishing net total gives no rate");
      else VASSERT(SAME(r, Auger_Transition_Individual[Z][t] / y2), "Auger rate = raw rate / net non-radiative total of the transition's own shell");
    }
  }
  VCANARY("AugerRate derivation loop end");
}
LEMMA(lemma_AugerRate_prdata_range)
{
  ND_Z(Z); ND_AUGER(t);
  VASSUME(t < 0 || t >= SPEC_NAUGER);
  VASSERT(AugerRate_prdata(Z, t) == 0.0, "Auger rate: macro outside the published range gives no rate");
  VCANARY("AugerRate out of range");
}
