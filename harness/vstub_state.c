#include "vstub.h"
int g_fail;
int g_nerr;
xrl_error g_err_obj;
