#include "vstub.h"
int g_fail;
int g_nerr;
xrl_error g_err_obj;
xrl_error **g_watch;

/* ghost version of xrl_propagate_error for the lemma harnesses: moves an already stored error into dest */
void xrl_propagate_error(xrl_error **dest, xrl_error *src)
{
  __CPROVER_assert(src != NULL, "xrl_propagate_error: src is an error");
  if (dest) {
    if (dest == g_watch) g_fail++;
    __CPROVER_assert(*dest == NULL, "no error is stored over an existing one");
    if (*dest == NULL) *dest = src;
  }
}
