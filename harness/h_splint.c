/* C02(a): splint() itself - real body with an injected loop contract (vlib/loops.py), symbolic n.
 * The three arrays are fresh objects of n doubles, addressed 1..n as the library does (pointer - 1).   */
#include "config.h"
#include <stdlib.h>
#include "splint.h"
#include "xraylib-error-private.h"
int g_err_calls;
void xrl_set_error_literal(xrl_error **err, xrl_error_code code, const char *message) {
  __CPROVER_assert(message != NULL && message[0] != 0, "error message is non-empty");
  __CPROVER_assert(code == XRL_ERROR_INVALID_ARGUMENT, "error code is INVALID_ARGUMENT");
  g_err_calls++;
}
#ifndef NMAX
#define NMAX 1000000
#endif
void h_splint(void)
{
  int n;
  double x, y;
  __CPROVER_assume(n >= 2 && n <= NMAX);
  double *xa = malloc(sizeof(double) * n), *ya = malloc(sizeof(double) * n), *y2 = malloc(sizeof(double) * n);
  __CPROVER_assume(xa && ya && y2);
  __CPROVER_assume(!__CPROVER_isnand(x));
  g_err_calls = 0;
  int rv = splint(xa - 1, ya - 1, y2 - 1, n, x, &y, 0);
  if (rv) {
    __CPROVER_assert(g_err_calls == 0, "splint: no error on success");
    __CPROVER_assert(!(x < xa[0]) && !(x - xa[n - 1] > 1E-7), "splint: success only inside the tabulated range (guard band 1e-7 above the last knot)");
    __CPROVER_assert(0, "CANARY splint success");
  } else {
    __CPROVER_assert(g_err_calls == 1 && y == 0.0, "splint: exactly one error and *y == 0 on failure");
    __CPROVER_assert((x < xa[0]) || (x - xa[n - 1] > 1E-7), "splint: failure only outside the tabulated range - never an extrapolated number, never a refusal inside");
    __CPROVER_assert(0, "CANARY splint failure");
  }
}
