/* C04: memory safety of the interpolating call sites under TABLES_WF, plain CBMC semantics (not dfcc: the library's
 * Numerical-Recipes idiom `array - 1` forms a pointer one before the object, which dfcc's strict pointer model poisons).
 * The harness installs, for the queried element, arrays of N doubles of their own (N symbolic, 2..NKNOTS); splint is a
 * stub that *asserts* what the real splint needs (proved on the real splint in h_splint.c: it reads xa[1..n], ya[1..n],
 * y2a[1..n] only, writes *y, stores at most one error into an empty slot) and returns an arbitrary outcome.          */
#include "vh.h"
#include "vstub.h"
#include "splint.h"
#ifndef NKNOTS
#define NKNOTS 100000
#endif
int splint(double xa[], double ya[], double y2a[], int n, double x, double *y, xrl_error **error)
{
  _Bool ok; double v;
  /* first elements: the predicates are evaluated on pointers held in locals (CBMC 6.11 mis-evaluates r_ok on the expression
   * `xa + 1` itself when xa has a negative offset; probe in DESIGN 9) */
  double *x1 = xa + 1, *y1 = ya + 1, *z1 = y2a + 1;
  __CPROVER_assert(n >= 2, "splint is called with at least two knots");
  __CPROVER_assert(__CPROVER_r_ok(x1, n * sizeof(double)), "splint: knots xa[1..n] are readable");
  __CPROVER_assert(__CPROVER_r_ok(y1, n * sizeof(double)), "splint: values ya[1..n] are readable");
  __CPROVER_assert(__CPROVER_r_ok(z1, n * sizeof(double)), "splint: second derivatives y2a[1..n] are readable");
  __CPROVER_assert(__CPROVER_w_ok(y, sizeof(double)), "splint: result location is writable");
  __CPROVER_assume(ok || v == 0.0);
  if (!ok) stub_fail(error);
  *y = v;
  return ok;
}
void xrl_set_error_literal(xrl_error **err, xrl_error_code code, const char *message)
{
  __CPROVER_assert(message != NULL && message[0] != 0, "error message is non-empty");
  stub_set(err, code);
}
#define INSTALL(N, X, Y, Y2, PRESENT) \
  if (Z_OK(Z) && (PRESENT)) { \
    __CPROVER_assume((N)[Z] >= 2 && (N)[Z] <= NKNOTS); \
    (X)[Z] = malloc(sizeof(double) * (N)[Z]); (Y)[Z] = malloc(sizeof(double) * (N)[Z]); (Y2)[Z] = malloc(sizeof(double) * (N)[Z]); \
    __CPROVER_assume((X)[Z] && (Y)[Z] && (Y2)[Z]); \
  }
#define SAFE_LEMMA(f, ARGKIND, N, X, Y, Y2, PRESENT) \
LEMMA(safe_##f) { ND_Z(Z); ARGKIND(a); ND_ERRSLOT(error); double r; \
  INSTALL(N, X, Y, Y2, PRESENT) \
  GHOST_RESET(); \
  r = f(Z, a, error); \
  VASSERT(NO_ERROR(error) || (r == 0.0 && ONE_ERROR(error)), #f ": either no error, or the 0 sentinel and exactly one error"); \
  if (r != 0.0) { VCANARY(#f " non-zero result"); } }
SAFE_LEMMA(CS_Photo, ND_ENERGY, NE_Photo, E_Photo_arr, CS_Photo_arr, CS_Photo_arr2, NE_Photo[Z] >= 0)
SAFE_LEMMA(CS_Rayl, ND_ENERGY, NE_Rayl, E_Rayl_arr, CS_Rayl_arr, CS_Rayl_arr2, NE_Rayl[Z] >= 0)
SAFE_LEMMA(CS_Compt, ND_ENERGY, NE_Compt, E_Compt_arr, CS_Compt_arr, CS_Compt_arr2, NE_Compt[Z] >= 0)
SAFE_LEMMA(CS_Energy, ND_ENERGY, NE_Energy, E_Energy_arr, CS_Energy_arr, CS_Energy_arr2, NE_Energy[Z] >= 0)
SAFE_LEMMA(Fi, ND_ENERGY, NE_Fi, E_Fi_arr, Fi_arr, Fi_arr2, NE_Fi[Z] >= 0)
SAFE_LEMMA(Fii, ND_ENERGY, NE_Fii, E_Fii_arr, Fii_arr, Fii_arr2, NE_Fii[Z] >= 0)
SAFE_LEMMA(FF_Rayl, ND_FINITE, Nq_Rayl, q_Rayl_arr, FF_Rayl_arr, FF_Rayl_arr2, Nq_Rayl[Z] > 0)
SAFE_LEMMA(SF_Compt, ND_FINITE, Nq_Compt, q_Compt_arr, SF_Compt_arr, SF_Compt_arr2, Nq_Compt[Z] > 0)
SAFE_LEMMA(ComptonProfile, ND_FINITE, Npz_ComptonProfiles, pz_ComptonProfiles, Total_ComptonProfiles, Total_ComptonProfiles2, NShells_ComptonProfiles[Z] >= 0)

/* sub-shell profile: occupancies and the per-shell arrays */
LEMMA(safe_ComptonProfile_Partial)
{
  ND_Z(Z); ND_SHELL(shell); ND_FINITE(pz); ND_ERRSLOT(error); double r; int s;
  if (Z_OK(Z) && NShells_ComptonProfiles[Z] >= 0) {
    int ns = NShells_ComptonProfiles[Z], np = Npz_ComptonProfiles[Z];
    __CPROVER_assume(ns >= 1 && ns <= SHELLNUM_C && np >= 2 && np <= NKNOTS);
    UOCCUP_ComptonProfiles[Z] = malloc(sizeof(double) * ns); pz_ComptonProfiles[Z] = malloc(sizeof(double) * np);
    __CPROVER_assume(UOCCUP_ComptonProfiles[Z] && pz_ComptonProfiles[Z]);
    if (shell >= 0 && shell < ns) {   /* TABLES_WF: partial profile arrays are live exactly where the occupancy is non-zero */
      if (UOCCUP_ComptonProfiles[Z][shell] != 0.0) {
        Partial_ComptonProfiles[Z][shell] = malloc(sizeof(double) * np); Partial_ComptonProfiles2[Z][shell] = malloc(sizeof(double) * np);
        __CPROVER_assume(Partial_ComptonProfiles[Z][shell] && Partial_ComptonProfiles2[Z][shell]);
      }
    }
  }
  GHOST_RESET();
  r = ComptonProfile_Partial(Z, shell, pz, error);
  VASSERT(NO_ERROR(error) || (r == 0.0 && ONE_ERROR(error)), "ComptonProfile_Partial: either no error, or the 0 sentinel and exactly one error");
  if (r != 0.0) { VCANARY("ComptonProfile_Partial non-zero result"); }
}

/* Kissel partial photo-ionisation; TABLES_WF: occupied shells have an edge column, their tables at least two knots */
LEMMA(safe_CSb_Photo_Partial)
{
  ND_Z(Z); ND_SHELL(shell); ND_ENERGY(E); ND_ERRSLOT(error); double r;
  if (Z_OK(Z) && shell >= 0 && shell < SHELLNUM_K && !(Electron_Config_Kissel[Z][shell] < 1.0E-06)) {
    int n = NE_Photo_Partial_Kissel[Z][shell];
    __CPROVER_assume(n >= 2 && n <= NKNOTS);
    E_Photo_Partial_Kissel[Z][shell] = malloc(sizeof(double) * n); Photo_Partial_Kissel[Z][shell] = malloc(sizeof(double) * n);
    Photo_Partial_Kissel2[Z][shell] = malloc(sizeof(double) * n);
    __CPROVER_assume(E_Photo_Partial_Kissel[Z][shell] && Photo_Partial_Kissel[Z][shell] && Photo_Partial_Kissel2[Z][shell]);
  }
  GHOST_RESET();
  r = CSb_Photo_Partial(Z, shell, E, error);
  VASSERT(NO_ERROR(error) || (r == 0.0 && ONE_ERROR(error)), "CSb_Photo_Partial: either no error, or the 0 sentinel and exactly one error");
  if (r != 0.0) { VCANARY("CSb_Photo_Partial non-zero result"); }
}
