/* K1 harnesses of the closed-form functions (protocol only; libm is UF) */
#include "vh.h"
#include "c_error.h"
#include "c_closed.h"
#define OUTCOME(r) if ((r) != 0.0) { VCANARY("non-zero result"); }
LEMMA(h_DCS_Thoms) { ND_ANGLE(theta); K1_ERRSLOT(error); double r = DCS_Thoms(theta, error); OUTCOME(r) VNATIVE(VASSERT(POST_NEVER_FAILS(r, error), "DCS_Thoms never fails")); K1_ERRSLOT_DONE(error); }
LEMMA(h_DCSP_Thoms) { ND_ANGLE(theta); ND_ANGLE(phi); K1_ERRSLOT(error); double r = DCSP_Thoms(theta, phi, error); OUTCOME(r) VNATIVE(VASSERT(POST_NEVER_FAILS(r, error), "DCSP_Thoms never fails")); K1_ERRSLOT_DONE(error); }
LEMMA(h_DCS_KN) { ND_ENERGY(E); ND_ANGLE(theta); K1_ERRSLOT(error); double r = DCS_KN(E, theta, error); OUTCOME(r) VNATIVE(VASSERT(POST_ENERGY_PROTOCOL(r, E, error), "DCS_KN fails iff E <= 0")); K1_ERRSLOT_DONE(error); }
LEMMA(h_DCSP_KN) { ND_ENERGY(E); ND_ANGLE(theta); ND_ANGLE(phi); K1_ERRSLOT(error); double r = DCSP_KN(E, theta, phi, error); OUTCOME(r) VNATIVE(VASSERT(POST_ENERGY_PROTOCOL(r, E, error), "DCSP_KN fails iff E <= 0")); K1_ERRSLOT_DONE(error); }
LEMMA(h_MomentTransf) { ND_ENERGY(E); ND_ANGLE(theta); K1_ERRSLOT(error); double r = MomentTransf(E, theta, error); OUTCOME(r) VNATIVE(VASSERT(POST_ENERGY_PROTOCOL(r, E, error), "MomentTransf fails iff E <= 0")); K1_ERRSLOT_DONE(error); }
LEMMA(h_CS_KN) { ND_ENERGY(E); K1_ERRSLOT(error); double r = CS_KN(E, error); OUTCOME(r) VNATIVE(VASSERT(POST_ENERGY_PROTOCOL(r, E, error), "CS_KN fails iff E <= 0")); K1_ERRSLOT_DONE(error); }
LEMMA(h_ComptonEnergy) { ND_ENERGY(E0); ND_ANGLE(theta); K1_ERRSLOT(error); double r = ComptonEnergy(E0, theta, error); OUTCOME(r) VNATIVE(VASSERT(POST_ENERGY_PROTOCOL(r, E0, error), "ComptonEnergy fails iff E0 <= 0")); K1_ERRSLOT_DONE(error); }
