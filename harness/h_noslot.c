/* C03: "passing no error slot at all changes nothing but the reporting".
 * Two runs of the real body with the same arguments, one with a slot and one without, callees as deterministic UF
 * leaves (which is what their own purity lemmas / contracts give): the results are bit-identical.               */
#include "vh.h"
#include "vstub.h"
#include "leaves.h"
#define NOSLOT(f, DECLS, ARGS, PRE) \
LEMMA(lemma_noslot_##f) { DECLS; xrl_error *eo = NULL; double a, b; PRE; g_watch = &eo; GHOST_RESET(); \
  a = f(ARGS, &eo); b = f(ARGS, NULL); \
  VASSERT(SAME(a, b), #f ": same result with and without an error slot"); \
  VASSERT((a == 0.0) || eo == NULL, #f ": a non-zero result leaves the slot empty"); \
  if (eo != NULL) { VCANARY(#f " failing call"); } else { VCANARY(#f " succeeding call"); } }
#define C ,
/* TABLES_WF (cross-table): a form factor / scattering function table implies an atomic weight */
#define WF_FF VASSUME(!LEAFOK_FF_Rayl(Z, LEAF_MomentTransf(E, theta)) || LEAFOK_AtomicWeight(Z))
#define WF_SF VASSUME(!LEAFOK_SF_Compt(Z, LEAF_MomentTransf(E, theta)) || LEAFOK_AtomicWeight(Z))
NOSLOT(CS_Total, ND_Z(Z); ND_ENERGY(E), Z C E, )
NOSLOT(CSb_Photo, ND_Z(Z); ND_ENERGY(E), Z C E, )
NOSLOT(DCS_Rayl, ND_Z(Z); ND_ENERGY(E); ND_ANGLE(theta), Z C E C theta, WF_FF)
NOSLOT(DCSP_Compt, ND_Z(Z); ND_ENERGY(E); ND_ANGLE(theta); ND_ANGLE(phi), Z C E C theta C phi, WF_SF)
NOSLOT(CS_FluorShell, ND_Z(Z); ND_SHELL(shell); ND_ENERGY(E), Z C shell C E, )
