/* K1 harnesses of the interpolating functions (contract enforced by dfcc; splint replaced by its contract) */
#include "vh.h"
#include "c_error.h"
#include "c_interp.h"
#define HI(f, KIND) LEMMA(h_##f) { ND_Z(Z); KIND(a); K1_ERRSLOT(error); double r = f(Z, a, error); if (r != 0.0) { VCANARY(#f " non-zero result"); } K1_ERRSLOT_DONE(error); }
HI(CS_Photo, ND_ENERGY) HI(CS_Rayl, ND_ENERGY) HI(CS_Compt, ND_ENERGY) HI(CS_Energy, ND_ENERGY) HI(Fi, ND_ENERGY) HI(Fii, ND_ENERGY)
HI(FF_Rayl, ND_FINITE) HI(SF_Compt, ND_FINITE) HI(ComptonProfile, ND_FINITE)
