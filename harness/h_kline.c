/* C08: line dispatch of the Kissel XRF functions (macro CS_FLUORLINE_BODY of src/kissel_pe.c, instantiated 4 times).
 * Line cross section = shell cross section of the shell the line starts from x radiative rate; L-alpha -> L3;
 * L-beta = sum over its members; every other macro is an error.  Lines are enumerated with a constant macro value
 * (ENUM_LO..ENUM_HI), the starting shell is derived from the macro names (gen/spec_lineshell9.h).                      */
#include "vh.h"
#include "vstub.h"
#include "leaves.h"
#include "spec_lines.h"
#include "spec_lineshell9.h"
#define FAILS(r, error) ((r) == 0.0 && ONE_ERROR(error))
#ifndef KBASE
#define KBASE Cascade
#endif
#define CAT2(a, b) a##b
#define CAT(a, b) CAT2(a, b)
#define LINE_FN CAT(CS_FluorLine_Kissel_, KBASE)
#define LEAF_SHELL CAT(LEAF_CS_FluorShell_Kissel_, KBASE)
#define LEAFOK_SHELL CAT(LEAFOK_CS_FluorShell_Kissel_, KBASE)

static void check_kline(int Z, int line, double E, int shell, xrl_error **error)
{
  double t;
  GHOST_RESET();
  t = LINE_FN(Z, line, E, error);
  if (!Z_OK(Z) || E <= 0.0) { VASSERT(FAILS(t, error), "Kissel line cross section: Z or energy out of range is an error"); }
  else if (shell < K_SHELL || shell > M5_SHELL) { VCANARY("kline other"); VASSERT(FAILS(t, error), "Kissel line cross section: a line that does not start in K..M5 is an error"); }
  else if (!LEAFOK_RadRate(Z, line)) { VCANARY("kline no rate"); VASSERT(FAILS(t, error), "Kissel line cross section: unavailable radiative rate is an error"); }
  else if (!LEAFOK_SHELL(Z, shell, E)) { VASSERT(FAILS(t, error), "Kissel line cross section: undefined shell cross section (e.g. below the edge) is an error"); }
  else { VCANARY("kline defined");
    VASSERT(SAME(t, LEAF_SHELL(Z, shell, E) * LEAF_RadRate(Z, line)) && NO_ERROR(error), "Kissel line cross section = shell cross section of the line's starting shell x radiative rate"); }
}
#ifndef ENUM_LO
#define ENUM_LO (-8)
#define ENUM_HI (-1)
#endif
LEMMA(lemma_kline_enum)
{
  ND_Z(Z); ND_ENERGY(E); ND_BOOL(with_slot);
  int line;
  for (line = ENUM_LO; line <= ENUM_HI; line++) {
    xrl_error *eo = NULL; xrl_error **error = with_slot ? &eo : NULL;
    VCBMC(g_watch = error;)
    check_kline(Z, line, E, SPEC_LINE_SHELL9[SPEC_SLOT(line)], error);
    VNATIVE(xrl_clear_error(&eo);)
  }
  VCANARY("kline enumeration end");
}
/* the four Siegbahn group macros and every int outside the macro range */
LEMMA(lemma_kline_groups)
{
  ND_Z(Z); ND_ENERGY(E); ND_ERRSLOT(error); ND_LINE(other);
  double t, s = 0.0; int i;
  check_kline(Z, KA_LINE, E, K_SHELL, error);
  { xrl_error *e2 = NULL; VCBMC(g_watch = &e2;) check_kline(Z, KB_LINE, E, K_SHELL, &e2); VNATIVE(xrl_clear_error(&e2);) }
  { xrl_error *e3 = NULL; VCBMC(g_watch = &e3;) check_kline(Z, LA_LINE, E, L3_SHELL, &e3); VNATIVE(xrl_clear_error(&e3);) }
  { xrl_error *e4 = NULL; VCBMC(g_watch = &e4;) VASSUME(other < SPEC_LINE_MIN || other > LB_LINE); check_kline(Z, other, E, -1, &e4); VNATIVE(xrl_clear_error(&e4);) }
#ifdef WITH_LB
  /* L-beta: sum over the member lines (public values: 0 where a member is unavailable) */
  { xrl_error *e5 = NULL; VCBMC(g_watch = &e5;) GHOST_RESET();
    t = LINE_FN(Z, LB_LINE, E, &e5);
    if (Z_OK(Z) && E > 0.0) {
      for (i = 0; i < SPEC_NLB; i++) {
        int m = SPEC_LB[i].line, sh = SPEC_LINE_SHELL9[SPEC_SLOT(m)];
        double rr = LEAF_RadRate(Z, m), f = LEAF_SHELL(Z, sh, E);
        /* the member call returns Factor * rr, or 0 when either part is unavailable */
        s += (rr == 0.0) ? 0.0 : ((f == 0.0) ? 0.0 : f * rr);
      }
      VCANARY("kline LB");
      if (s == 0.0) VASSERT(t == 0.0 && e5 != NULL, "Kissel L-beta: no available member is an error");
      else VASSERT(SAME(t, s) && e5 == NULL, "Kissel L-beta = sum over its member lines");
    }
    VNATIVE(xrl_clear_error(&e5);) }
#endif
  ERRSLOT_DONE(error);
}
