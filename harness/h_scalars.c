/* K1 harnesses of the scalar accessors: nondeterministic arguments, the contract does the rest.
 * Natively (replay / sweep) the same post-condition macro is evaluated on the real tables. */
#include "vh.h"
#include "c_error.h"
#include "c_scalars.h"
double ElectronConfig_Biggs(int Z, int shell, xrl_error **error);

#define H1(f) LEMMA(h_##f) { ND_Z(Z); K1_ERRSLOT(error); double r = f(Z, error); \
  VNATIVE(VASSERT(POST_##f(r, Z, error), #f ": table value or error")); K1_ERRSLOT_DONE(error); }
#define H2(f, KIND) LEMMA(h_##f) { ND_Z(Z); KIND(m); K1_ERRSLOT(error); double r = f(Z, m, error); \
  VNATIVE(VASSERT(POST_##f(r, Z, m, error), #f ": table value or error")); K1_ERRSLOT_DONE(error); }

H1(AtomicWeight)
H1(ElementDensity)
H2(EdgeEnergy, ND_SHELL)
H2(FluorYield, ND_SHELL)
H2(JumpFactor, ND_SHELL)
H2(AtomicLevelWidth, ND_SHELL)
H2(ElectronConfig, ND_SHELL)
H2(CosKronTransProb, ND_TRANS)
H2(AugerRate, ND_AUGER)
H2(AugerYield, ND_SHELL)
H2(ElectronConfig_Biggs, ND_SHELL)
