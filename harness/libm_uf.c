/* A-libm: libm functions as unknown pure functions of their argument (CBMC's own models are nondeterministic
 * approximations).  The only facts added are the ones a lemma needs and glibc guarantees; each is listed in evidence. */
#ifdef VERIF_CBMC
double __CPROVER_uninterpreted_libm_cos(double);
double __CPROVER_uninterpreted_libm_sin(double);
double __CPROVER_uninterpreted_libm_log(double);
double __CPROVER_uninterpreted_libm_exp(double);
double __CPROVER_uninterpreted_libm_sqrt(double);
double __CPROVER_uninterpreted_libm_asin(double);
double __CPROVER_uninterpreted_libm_pow(double, double);
double __CPROVER_uninterpreted_libm_atan(double);
double cos(double x) { return __CPROVER_uninterpreted_libm_cos(x); }
double sin(double x) { return __CPROVER_uninterpreted_libm_sin(x); }
double log(double x) { return __CPROVER_uninterpreted_libm_log(x); }
double exp(double x) { double r = __CPROVER_uninterpreted_libm_exp(x); __CPROVER_assume(r >= 0.0 || __CPROVER_isnand(r)); return r; }
double sqrt(double x) { return __CPROVER_uninterpreted_libm_sqrt(x); }
double asin(double x) { return __CPROVER_uninterpreted_libm_asin(x); }
double atan(double x) { return __CPROVER_uninterpreted_libm_atan(x); }
double pow(double x, double y) { return __CPROVER_uninterpreted_libm_pow(x, y); }
#endif
