/* A-libm: libm functions as unknown pure functions of their argument (CBMC's own models are nondeterministic
 * approximations).  The only facts added are the ones a lemma needs and glibc guarantees; each is listed in evidence. */
#ifdef VERIF_CBMC
double __CPROVER_uninterpreted_libm_cos(double);
double __CPROVER_uninterpreted_libm_sin(double);
double __CPROVER_uninterpreted_libm_log(double);
double __CPROVER_uninterpreted_libm_exp(double);
double __CPROVER_uninterpreted_libm_sqrt(double);
double __CPROVER_uninterpreted_libm_asin(double);
double __CPROVER_uninterpreted_libm_pow(double, double);
double __CPROVER_uninterpreted_libm_atan(double);
#if defined(V_RESTRICT_LEAVES) && defined(LIBM_CONCRETE_IN_PREPASS)
/* refutation pre-pass of the geometry lemmas only (DESIGN 3.2): ONE concrete interpretation of the unknown functions.  A
 * counterexample under one interpretation is a counterexample of the obligation, which is stated for every
 * interpretation; a SUCCESS of such a run proves nothing and is discarded.                                            */
double cos(double x) { return x * 0.25 + 0.375; }
double sin(double x) { return x * 0.5 + 0.125; }
double sqrt(double x) { return x * 0.5 + 0.25; }
double pow(double x, double y) { return x * x + y * 0.125; }
#else
double cos(double x) { return __CPROVER_uninterpreted_libm_cos(x); }
double sin(double x) { return __CPROVER_uninterpreted_libm_sin(x); }
double sqrt(double x) { return __CPROVER_uninterpreted_libm_sqrt(x); }
double pow(double x, double y) { return __CPROVER_uninterpreted_libm_pow(x, y); }
#endif
double log(double x) { return __CPROVER_uninterpreted_libm_log(x); }
double exp(double x) { double r = __CPROVER_uninterpreted_libm_exp(x); __CPROVER_assume(r >= 0.0 || __CPROVER_isnand(r)); return r; }
double asin(double x) { return __CPROVER_uninterpreted_libm_asin(x); }
double atan(double x) { return __CPROVER_uninterpreted_libm_atan(x); }
#endif
