/* K2 value lemmas for C05: totals, per-atom (barn) twins, differential cross sections.
 *
 * The function under proof is the real body from /repo; its value-carrying callees are UF leaves
 * (gen/stubs_*.c); the right-hand side of each identity is recomputed here from the same leaves in
 * the order the property states it.  Bit-exact: SAME(), never a tolerance.                        */
#include "vh.h"
#include "vstub.h"
#include "leaves.h"

#define FAILS(r, error) ((r) == 0.0 && ONE_ERROR(error))

/* ------------------------------------------------------------------ totals */

LEMMA(lemma_CS_Total)
{
  ND_Z(Z); ND_ENERGY(E); ND_ERRSLOT(error);
  GHOST_RESET();
  double t = CS_Total(Z, E, error);
  int have = Z_OK(Z) && NE_Photo[Z] >= 0 && NE_Rayl[Z] >= 0 && NE_Compt[Z] >= 0 && E > 0.0;
  if (have && LEAFOK_CS_Photo(Z, E) && LEAFOK_CS_Rayl(Z, E) && LEAFOK_CS_Compt(Z, E)) {
    VCANARY("CS_Total defined");
    VASSERT(SAME(t, LEAF_CS_Photo(Z, E) + LEAF_CS_Rayl(Z, E) + LEAF_CS_Compt(Z, E)) && NO_ERROR(error),
            "CS_Total = photo + Rayleigh + Compton");
  } else {
    VCANARY("CS_Total undefined part");
    VASSERT(FAILS(t, error), "CS_Total: an undefined part fails the aggregate (no partial sum, one error)");
  }
  ERRSLOT_DONE(error);
}

LEMMA(lemma_CS_Total_Kissel)
{
  ND_Z(Z); ND_ENERGY(E); ND_ERRSLOT(error);
  GHOST_RESET();
  double t = CS_Total_Kissel(Z, E, error);
  int have = Z_OK(Z) && NE_Photo_Total_Kissel[Z] >= 0 && NE_Rayl[Z] >= 0 && NE_Compt[Z] >= 0 && E > 0.0;
  if (have && LEAFOK_CS_Photo_Total(Z, E) && LEAFOK_CS_Rayl(Z, E) && LEAFOK_CS_Compt(Z, E)) {
    VCANARY("CS_Total_Kissel defined");
    VASSERT(SAME(t, 0.0 + LEAF_CS_Photo_Total(Z, E) + LEAF_CS_Rayl(Z, E) + LEAF_CS_Compt(Z, E)) && NO_ERROR(error),
            "CS_Total_Kissel = Kissel photo total + Rayleigh + Compton");
  } else {
    VCANARY("CS_Total_Kissel undefined part");
    VASSERT(FAILS(t, error), "CS_Total_Kissel: an undefined part fails the aggregate (no partial sum, one error)");
  }
  ERRSLOT_DONE(error);
}

/* Kissel photo total = occupancy-weighted sum of the sub-shell cross sections (barn/atom) */
LEMMA(lemma_CSb_Photo_Total)
{
  ND_Z(Z); ND_ENERGY(E); ND_ERRSLOT(error);
  int s;
  double sum = 0.0;
  if (Z_OK(Z)) for (s = 0; s < SHELLNUM_K; s++) VASSUME(!V_ISNAN(Electron_Config_Kissel[Z][s]));
  GHOST_RESET();
  double t = CSb_Photo_Total(Z, E, error);
  if (Z_OK(Z) && NE_Photo_Total_Kissel[Z] >= 0 && E > 0.0) {
    for (s = 0; s < SHELLNUM_K; s++) {
      double occ = Electron_Config_Kissel[Z][s];
      if (occ > 1.0E-06)
        sum += LEAF_CSb_Photo_Partial(Z, s, E) * occ;   /* public value: 0 when the sub-shell call fails */
    }
    if (sum != 0.0) {
      VCANARY("CSb_Photo_Total defined");
      VASSERT(SAME(t, sum) && NO_ERROR(error), "CSb_Photo_Total = sum over occupied sub-shells of partial cross section x occupancy");
    } else {
      VASSERT(FAILS(t, error), "CSb_Photo_Total: no contributing sub-shell is an error");
    }
  } else {
    VCANARY("CSb_Photo_Total out of range");
    VASSERT(FAILS(t, error), "CSb_Photo_Total: out-of-range arguments are an error");
  }
  ERRSLOT_DONE(error);
}

LEMMA(lemma_CS_Photo_Total)
{
  ND_Z(Z); ND_ENERGY(E); ND_ERRSLOT(error);
  /* TABLES_WF (cross-table): an element with Kissel data has an atomic weight */
  if (Z_OK(Z)) VASSUME(AtomicWeight_arr[Z] > 0.0 && !V_ISINF(AtomicWeight_arr[Z]));
  GHOST_RESET();
  double t = CS_Photo_Total(Z, E, error);
  if (LEAFOK_CSb_Photo_Total(Z, E)) {
    VASSUME(Z_OK(Z));  /* protocol of CSb_Photo_Total (proved above): success implies a valid Z */
    VCANARY("CS_Photo_Total defined");
    VASSERT(SAME(t, LEAF_CSb_Photo_Total(Z, E) * AVOGNUM / AtomicWeight_arr[Z]) && NO_ERROR(error),
            "CS_Photo_Total = barn/atom twin x Avogadro / atomic weight");
  } else {
    VASSERT(FAILS(t, error), "CS_Photo_Total: undefined twin fails");
  }
  ERRSLOT_DONE(error);
}

LEMMA(lemma_CS_Photo_Partial)
{
  ND_Z(Z); ND_SHELL(shell); ND_ENERGY(E); ND_ERRSLOT(error);
  if (Z_OK(Z)) VASSUME(AtomicWeight_arr[Z] > 0.0 && !V_ISINF(AtomicWeight_arr[Z]));
  GHOST_RESET();
  double t = CS_Photo_Partial(Z, shell, E, error);
  if (LEAFOK_CSb_Photo_Partial(Z, shell, E)) {
    VASSUME(Z_OK(Z) && shell >= 0 && shell < SHELLNUM_K);  /* protocol of CSb_Photo_Partial: success implies valid Z, shell */
    VCANARY("CS_Photo_Partial defined");
    VASSERT(SAME(t, LEAF_CSb_Photo_Partial(Z, shell, E) * Electron_Config_Kissel[Z][shell] * AVOGNUM / AtomicWeight_arr[Z]) && NO_ERROR(error),
            "CS_Photo_Partial = per-electron barn value x occupancy x Avogadro / atomic weight");
  } else {
    VASSERT(FAILS(t, error), "CS_Photo_Partial: undefined twin fails");
  }
  ERRSLOT_DONE(error);
}

/* ------------------------------------------------------------------ barn/atom twins (cs_barns.c) */

#define BARN_LEMMA(fb, f, DECLS, ARGS) \
LEMMA(lemma_##fb) \
{ \
  DECLS; ND_ERRSLOT(error); \
  GHOST_RESET(); \
  double t = fb(ARGS, error); \
  if (LEAFOK_##f(ARGS) && LEAFOK_AtomicWeight(Z)) { \
    VCANARY(#fb " defined"); \
    VASSERT(SAME(t, LEAF_##f(ARGS) * LEAF_AtomicWeight(Z) / AVOGNUM) && NO_ERROR(error), \
            #fb " = " #f " x atomic weight / Avogadro"); \
  } else { \
    VCANARY(#fb " undefined"); \
    VASSERT(FAILS(t, error), #fb ": undefined twin or atomic weight fails with one error"); \
  } \
  ERRSLOT_DONE(error); \
}
#define A_ZE ND_Z(Z); ND_ENERGY(E)
#define A_ZLE ND_Z(Z); ND_LINE(line); ND_ENERGY(E)
#define A_ZSE ND_Z(Z); ND_SHELL(shell); ND_ENERGY(E)
#define A_ZET ND_Z(Z); ND_ENERGY(E); ND_ANGLE(theta)
#define A_ZETP ND_Z(Z); ND_ENERGY(E); ND_ANGLE(theta); ND_ANGLE(phi)
#define C ,
BARN_LEMMA(CSb_Total, CS_Total, A_ZE, Z C E)
BARN_LEMMA(CSb_Photo, CS_Photo, A_ZE, Z C E)
BARN_LEMMA(CSb_Rayl, CS_Rayl, A_ZE, Z C E)
BARN_LEMMA(CSb_Compt, CS_Compt, A_ZE, Z C E)
BARN_LEMMA(CSb_FluorLine, CS_FluorLine, A_ZLE, Z C line C E)
BARN_LEMMA(CSb_FluorShell, CS_FluorShell, A_ZSE, Z C shell C E)
BARN_LEMMA(DCSb_Rayl, DCS_Rayl, A_ZET, Z C E C theta)
BARN_LEMMA(DCSb_Compt, DCS_Compt, A_ZET, Z C E C theta)
BARN_LEMMA(DCSPb_Rayl, DCSP_Rayl, A_ZETP, Z C E C theta C phi)
BARN_LEMMA(DCSPb_Compt, DCSP_Compt, A_ZETP, Z C E C theta C phi)

/* Kissel barn twins read the atomic-weight table directly */
#define KBARN_LEMMA(fb, f, DECLS, ARGS) \
LEMMA(lemma_##fb) \
{ \
  DECLS; ND_ERRSLOT(error); \
  if (Z_OK(Z)) VASSUME(AtomicWeight_arr[Z] > 0.0 && !V_ISINF(AtomicWeight_arr[Z])); \
  GHOST_RESET(); \
  double t = fb(ARGS, error); \
  if (LEAFOK_##f(ARGS)) { \
    VASSUME(Z_OK(Z)); /* protocol of the twin: success implies a valid Z */ \
    VCANARY(#fb " defined"); \
    VASSERT(SAME(t, LEAF_##f(ARGS) * AtomicWeight_arr[Z] / AVOGNUM) && NO_ERROR(error), \
            #fb " = " #f " x atomic weight / Avogadro"); \
  } else { \
    VASSERT(FAILS(t, error), #fb ": undefined twin fails with one error"); \
  } \
  ERRSLOT_DONE(error); \
}
KBARN_LEMMA(CSb_Total_Kissel, CS_Total_Kissel, A_ZE, Z C E)
KBARN_LEMMA(CSb_FluorLine_Kissel, CS_FluorLine_Kissel_Cascade, A_ZLE, Z C line C E)
KBARN_LEMMA(CSb_FluorShell_Kissel, CS_FluorShell_Kissel_Cascade, A_ZSE, Z C shell C E)

/* ------------------------------------------------------------------ differential cross sections */

/* N_A/A x F(q)^2 x Thomson, q = momentum transfer of (E, theta) */
#define DCS_LEMMA(f, FORM, SQUARE, CLOSEDF, CLOSEDARGS, DECLS, ARGS_CLOSED) \
LEMMA(lemma_##f) \
{ \
  ND_Z(Z); ND_ENERGY(E); DECLS; ND_ERRSLOT(error); \
  double q = LEAF_MomentTransf(E, theta); \
  /* TABLES_WF (cross-table): an element with a form factor / scattering function table has an atomic weight */ \
  VASSUME(!LEAFOK_##FORM(Z, q) || LEAFOK_AtomicWeight(Z)); \
  GHOST_RESET(); \
  double t = f(Z, E, ARGS_CLOSED, error); \
  if (Z_OK(Z) && E > 0.0 && LEAFOK_##FORM(Z, q)) { \
    double F = LEAF_##FORM(Z, q); \
    VCANARY(#f " defined"); \
    VASSERT(SAME(t, AVOGNUM / LEAF_AtomicWeight(Z) * F SQUARE * LEAF_##CLOSEDF(CLOSEDARGS)) && NO_ERROR(error), \
            #f " = N_A/A x " #FORM "(q)" #SQUARE " x " #CLOSEDF " at the momentum transfer of (E, theta)"); \
  } else { \
    VCANARY(#f " undefined"); \
    VASSERT(FAILS(t, error), #f ": out-of-range argument or undefined form factor fails with one error"); \
  } \
  ERRSLOT_DONE(error); \
}
DCS_LEMMA(DCS_Rayl, FF_Rayl, * F, DCS_Thoms, theta, ND_ANGLE(theta), theta)
DCS_LEMMA(DCS_Compt, SF_Compt, , DCS_KN, E C theta, ND_ANGLE(theta), theta)
DCS_LEMMA(DCSP_Rayl, FF_Rayl, * F, DCSP_Thoms, theta C phi, ND_ANGLE(theta); ND_ANGLE(phi), theta C phi)
DCS_LEMMA(DCSP_Compt, SF_Compt, , DCSP_KN, E C theta C phi, ND_ANGLE(theta); ND_ANGLE(phi), theta C phi)

/* ------------------------------------------------------------------ C08: Kissel barn twins of all variants, un-suffixed aliases */
KBARN_LEMMA(CSb_FluorLine_Kissel_Cascade, CS_FluorLine_Kissel_Cascade, A_ZLE, Z C line C E)
KBARN_LEMMA(CSb_FluorShell_Kissel_Cascade, CS_FluorShell_Kissel_Cascade, A_ZSE, Z C shell C E)
KBARN_LEMMA(CSb_FluorLine_Kissel_Nonradiative_Cascade, CS_FluorLine_Kissel_Nonradiative_Cascade, A_ZLE, Z C line C E)
KBARN_LEMMA(CSb_FluorShell_Kissel_Nonradiative_Cascade, CS_FluorShell_Kissel_Nonradiative_Cascade, A_ZSE, Z C shell C E)
KBARN_LEMMA(CSb_FluorLine_Kissel_Radiative_Cascade, CS_FluorLine_Kissel_Radiative_Cascade, A_ZLE, Z C line C E)
KBARN_LEMMA(CSb_FluorShell_Kissel_Radiative_Cascade, CS_FluorShell_Kissel_Radiative_Cascade, A_ZSE, Z C shell C E)
KBARN_LEMMA(CSb_FluorLine_Kissel_no_Cascade, CS_FluorLine_Kissel_no_Cascade, A_ZLE, Z C line C E)
KBARN_LEMMA(CSb_FluorShell_Kissel_no_Cascade, CS_FluorShell_Kissel_no_Cascade, A_ZSE, Z C shell C E)
#define ALIAS_LEMMA(fa, f, DECLS, ARGS) \
LEMMA(lemma_##fa) \
{ \
  DECLS; ND_ERRSLOT(error); \
  GHOST_RESET(); \
  double t = fa(ARGS, error); \
  VASSERT(SAME(t, LEAF_##f(ARGS)), #fa " returns exactly what " #f " returns"); \
  VASSERT(LEAFOK_##f(ARGS) ? NO_ERROR(error) : ONE_ERROR(error), #fa " fails exactly when " #f " fails"); \
  if (LEAFOK_##f(ARGS)) { VCANARY(#fa " defined"); } \
  ERRSLOT_DONE(error); \
}
ALIAS_LEMMA(CS_FluorLine_Kissel, CS_FluorLine_Kissel_Cascade, A_ZLE, Z C line C E)
ALIAS_LEMMA(CS_FluorShell_Kissel, CS_FluorShell_Kissel_Cascade, A_ZSE, Z C shell C E)
