/* Ghost state shared by the UF stubs (generated, see vlib/specgen.py) and the lemma harnesses. */
#ifndef VSTUB_H
#define VSTUB_H
#include "vcommon.h"
#ifdef VERIF_CBMC
extern int g_fail;            /* store attempts into a non-NULL slot (a callee invoked with a NULL slot reports nothing) */
extern int g_nerr;            /* errors actually stored into a caller-provided slot */
extern xrl_error g_err_obj;   /* the stored error object (one is enough: a second store is an assertion failure) */
extern xrl_error **g_watch;   /* the slot the harness passed to the function under proof (NULL: none) */
static inline void stub_set(xrl_error **err, xrl_error_code code) {
  if (err) {
    if (err == g_watch) g_fail++;   /* only stores into the caller's slot are "errors reported by the call" */
    __CPROVER_assert(*err == NULL, "no error is stored over an existing one");
    if (*err == NULL) { g_err_obj.code = code; g_err_obj.message = "stub"; *err = &g_err_obj; g_nerr++; }
  }
}
static inline void stub_fail(xrl_error **err) {
  int c;
  __CPROVER_assume(ERR_CODE_OK(c));
  stub_set(err, (xrl_error_code)c);
}
#define GHOST_RESET() do { g_fail = 0; g_nerr = 0; } while (0)
#define ND_ERRSLOT(error) xrl_error *error##_obj = NULL; ND_BOOL(error##_present); xrl_error **error = error##_present ? &error##_obj : NULL; g_watch = error
#define ERRSLOT_DONE(error)
#define NO_ERROR(error) (ERR_NONE(error) && g_fail == 0)
#define ONE_ERROR(error) ((error) == NULL ? g_fail == 0 : (g_fail == 1 && *(error) != NULL))
#else
/* native: "exactly one error" is observed through the caller's slot */
#define GHOST_RESET()
#define ND_ERRSLOT(error) xrl_error *error##_obj = NULL; ND_BOOL(error##_present); xrl_error **error = error##_present ? &error##_obj : NULL
#define ERRSLOT_DONE(error) xrl_clear_error(&error##_obj)
#define NO_ERROR(error) ERR_NONE(error)
#define ONE_ERROR(error) ((error) == NULL || *(error) != NULL)
#endif
#endif
