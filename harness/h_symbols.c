/* C15: symbol <-> atomic number conversion is a bijection over the element table (real bodies of src/xraylib-parser.c;
 * the element table is the initialiser cut out of src/xrayglob.c on every run, gen/mendel.c).                      */
#include "config.h"
#include <string.h>
#include <stdlib.h>
#include "xraylib.h"
#include "xrayglob.h"
#include "xraylib-error-private.h"
int g_fail;
static xrl_error g_err_obj;
void xrl_set_error_literal(xrl_error **err, xrl_error_code code, const char *message) {
  __CPROVER_assert(message != NULL && message[0] != 0, "error message is non-empty");
  if (err) { __CPROVER_assert(*err == NULL, "no error is stored over an existing one"); g_err_obj.code = code; *err = &g_err_obj; g_fail++; }
}
void lemma_symbols(void)
{
  int Z, bad;
  xrl_error *e = NULL;
  for (Z = 1; Z <= MENDEL_MAX; Z++) {
    char *s = AtomicNumberToSymbol(Z, &e);
    __CPROVER_assert(s != NULL && e == NULL && s != MendelArray[Z - 1].name && strcmp(s, MendelArray[Z - 1].name) == 0, "AtomicNumberToSymbol: an independent copy of the symbol of Z");
    __CPROVER_assert(SymbolToAtomicNumber(s, &e) == Z && e == NULL, "SymbolToAtomicNumber(AtomicNumberToSymbol(Z)) == Z");
    free(s);
  }
  g_fail = 0;
  { char *s = AtomicNumberToSymbol(bad, &e);
    __CPROVER_assert(s != NULL || (e != NULL && g_fail == 1), "AtomicNumberToSymbol: NULL comes with exactly one error");
    free(s); }
  __CPROVER_assert((bad >= 1 && bad <= MENDEL_MAX) || e != NULL, "AtomicNumberToSymbol: an atomic number outside the element table is an error");
  e = NULL; g_fail = 0;
  __CPROVER_assert(SymbolToAtomicNumber("Xx", &e) == 0 && e != NULL && g_fail == 1, "SymbolToAtomicNumber: unknown symbol is 0 and one error");
  e = NULL; g_fail = 0;
  __CPROVER_assert(SymbolToAtomicNumber(NULL, &e) == 0 && e != NULL && g_fail == 1, "SymbolToAtomicNumber: NULL symbol is 0 and one error");
  __CPROVER_assert(0, "CANARY symbols end");
}
