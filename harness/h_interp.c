/* C02(c): every interpolated quantity = post( splint( the table triple named for that quantity , N, pre(argument) ) ).
 * Real bodies of the twelve call sites; splint is a UF leaf over (knot pointer, value pointer, second-derivative pointer,
 * N, abscissa) - its own contract is proved on the real splint (h_splint.c); libm is UF (harness/libm_uf.c).
 * A wrong table pointer for one quantity, a wrong N, a missing range / positivity check or a wrong transform changes
 * the arguments of the UF application and fails the lemma.                                                       */
#include "vh.h"
#include "vstub.h"
#include "splint.h"
#ifdef VERIF_CBMC
double __CPROVER_uninterpreted_v_splint(double *, double *, double *, int, double);
_Bool __CPROVER_uninterpreted_ok_splint(double *, double *, double *, int, double);
double log(double); double exp(double);
int splint(double xa[], double ya[], double y2a[], int n, double x, double *y, xrl_error **error)
{
  _Bool ok = __CPROVER_uninterpreted_ok_splint(xa, ya, y2a, n, x);
  double v = __CPROVER_uninterpreted_v_splint(xa, ya, y2a, n, x);
  __CPROVER_assume(ok || v == 0.0);
  if (!ok) stub_fail(error);
  *y = v;
  return ok;
}
void xrl_set_error_literal(xrl_error **err, xrl_error_code code, const char *message)
{
  __CPROVER_assert(message != NULL && message[0] != 0, "error message is non-empty");
  stub_set(err, code);
}
#define SPL_OK(X, Y, Y2, N, x) __CPROVER_uninterpreted_ok_splint((X) - 1, (Y) - 1, (Y2) - 1, (N), (x))
#define SPL_V(X, Y, Y2, N, x) __CPROVER_uninterpreted_v_splint((X) - 1, (Y) - 1, (Y2) - 1, (N), (x))
#else
/* native twin: the real splint on the real tables */
static double spl_tmp;
#define SPL_OK(X, Y, Y2, N, x) splint((X) - 1, (Y) - 1, (Y2) - 1, (N), (x), &spl_tmp, NULL)
#define SPL_V(X, Y, Y2, N, x) (splint((X) - 1, (Y) - 1, (Y2) - 1, (N), (x), &spl_tmp, NULL), spl_tmp)
#endif
#define FAILS(r, error) ((r) == 0.0 && ONE_ERROR(error))
#define ID(x) (x)

/* f(Z, arg): PRESENT = element has a table; ARGOK = argument admissible; PRE/POST = documented transform */
#define INTERP_LEMMA(f, ARGKIND, PRESENT, ARGOK, PRE, POST, X, Y, Y2, N) \
LEMMA(lemma_##f) \
{ \
  ND_Z(Z); ARGKIND(arg); ND_ERRSLOT(error); \
  double r; \
  GHOST_RESET(); \
  r = f(Z, arg, error); \
  if (!(Z_OK(Z) && (PRESENT)) || !(ARGOK)) { \
    VCANARY(#f " no table or inadmissible argument"); \
    VASSERT(FAILS(r, error), #f ": an element without a table or an inadmissible argument is an error"); \
  } else if (!SPL_OK(X[Z], Y[Z], Y2[Z], N[Z], PRE(arg))) { \
    VCANARY(#f " outside the tabulated range"); \
    VASSERT(FAILS(r, error), #f ": outside the tabulated range the call fails with one error, never an extrapolated number"); \
  } else { \
    VCANARY(#f " interpolated"); \
    VASSERT(SAME(r, POST(SPL_V(X[Z], Y[Z], Y2[Z], N[Z], PRE(arg)))) && NO_ERROR(error), \
            #f " = post(spline through the shipped knots and second derivatives of this quantity at pre(argument))"); \
  } \
  ERRSLOT_DONE(error); \
}
#define LN1000(E) log((E) * 1000.0)
#define LNP1(pz) log((pz) + 1.0)
INTERP_LEMMA(CS_Photo, ND_ENERGY, NE_Photo[Z] >= 0, arg > 0.0, LN1000, exp, E_Photo_arr, CS_Photo_arr, CS_Photo_arr2, NE_Photo)
INTERP_LEMMA(CS_Rayl, ND_ENERGY, NE_Rayl[Z] >= 0, arg > 0.0, LN1000, exp, E_Rayl_arr, CS_Rayl_arr, CS_Rayl_arr2, NE_Rayl)
INTERP_LEMMA(CS_Compt, ND_ENERGY, NE_Compt[Z] >= 0, arg > 0.0, LN1000, exp, E_Compt_arr, CS_Compt_arr, CS_Compt_arr2, NE_Compt)
INTERP_LEMMA(CS_Energy, ND_ENERGY, Z <= 92 && NE_Energy[Z] >= 0, arg > 0.0, log, exp, E_Energy_arr, CS_Energy_arr, CS_Energy_arr2, NE_Energy)
INTERP_LEMMA(Fi, ND_ENERGY, NE_Fi[Z] >= 0, arg > 0.0, ID, ID, E_Fi_arr, Fi_arr, Fi_arr2, NE_Fi)
INTERP_LEMMA(Fii, ND_ENERGY, NE_Fii[Z] >= 0, arg > 0.0, ID, ID, E_Fii_arr, Fii_arr, Fii_arr2, NE_Fii)
INTERP_LEMMA(SF_Compt, ND_FINITE, Nq_Compt[Z] > 0, arg > 0.0, ID, ID, q_Compt_arr, SF_Compt_arr, SF_Compt_arr2, Nq_Compt)
INTERP_LEMMA(ComptonProfile, ND_FINITE, NShells_ComptonProfiles[Z] >= 0, !(arg < 0.0), LNP1, exp, pz_ComptonProfiles, Total_ComptonProfiles, Total_ComptonProfiles2, Npz_ComptonProfiles)

/* FF_Rayl: the form factor at q == 0 is the atomic number itself (no table look-up) */
LEMMA(lemma_FF_Rayl)
{
  ND_Z(Z); ND_FINITE(q); ND_ERRSLOT(error);
  double r;
  GHOST_RESET();
  r = FF_Rayl(Z, q, error);
  if (!(Z_OK(Z) && Nq_Rayl[Z] > 0) || q < 0.0) {
    VCANARY("FF_Rayl no table or negative q");
    VASSERT(FAILS(r, error), "FF_Rayl: an element without a table or a negative momentum transfer is an error");
  } else if (q == 0.0) {
    VASSERT(r == Z && NO_ERROR(error), "FF_Rayl(q = 0) = Z");
  } else if (!SPL_OK(q_Rayl_arr[Z], FF_Rayl_arr[Z], FF_Rayl_arr2[Z], Nq_Rayl[Z], q)) {
    VCANARY("FF_Rayl outside the tabulated range");
    VASSERT(FAILS(r, error), "FF_Rayl: outside the tabulated range the call fails with one error");
  } else {
    VCANARY("FF_Rayl interpolated");
    VASSERT(SAME(r, SPL_V(q_Rayl_arr[Z], FF_Rayl_arr[Z], FF_Rayl_arr2[Z], Nq_Rayl[Z], q)) && NO_ERROR(error),
            "FF_Rayl = spline through the shipped form-factor knots at q");
  }
  ERRSLOT_DONE(error);
}

LEMMA(lemma_ComptonProfile_Partial)
{
  ND_Z(Z); ND_SHELL(shell); ND_FINITE(pz); ND_ERRSLOT(error);
  double r;
  /* TABLES_WF (Compton profiles): a present element has 1..SHELLNUM_C occupancies in an array of its own (audited);
   * without this an unconstrained table pointer may alias the ghost state of the harness */
  VCBMC(if (Z_OK(Z)) { UOCCUP_ComptonProfiles[Z] = malloc(sizeof(double) * SHELLNUM_C); __CPROVER_assume(UOCCUP_ComptonProfiles[Z] != NULL); __CPROVER_assume(NShells_ComptonProfiles[Z] <= SHELLNUM_C); })
  GHOST_RESET();
  r = ComptonProfile_Partial(Z, shell, pz, error);
  if (!(Z_OK(Z) && NShells_ComptonProfiles[Z] >= 1) || shell < 0 || shell >= NShells_ComptonProfiles[Z] ||
      UOCCUP_ComptonProfiles[Z][shell] == 0.0 || pz < 0.0) {
    VCANARY("ComptonProfile_Partial invalid");
    VASSERT(FAILS(r, error), "ComptonProfile_Partial: no data, unoccupied / unknown shell or negative pz is an error");
  } else if (!SPL_OK(pz_ComptonProfiles[Z], Partial_ComptonProfiles[Z][shell], Partial_ComptonProfiles2[Z][shell], Npz_ComptonProfiles[Z], log(pz + 1.0))) {
    VASSERT(FAILS(r, error), "ComptonProfile_Partial: outside the tabulated range the call fails with one error");
  } else {
    VCANARY("ComptonProfile_Partial interpolated");
    VASSERT(SAME(r, exp(SPL_V(pz_ComptonProfiles[Z], Partial_ComptonProfiles[Z][shell], Partial_ComptonProfiles2[Z][shell], Npz_ComptonProfiles[Z], log(pz + 1.0)))) && NO_ERROR(error),
            "ComptonProfile_Partial = exp(spline of the sub-shell profile at ln(pz + 1))");
  }
  ERRSLOT_DONE(error);
}

/* Kissel partial photo-ionisation (barn per electron): spline in ln E; the only extension outside the table is the
 * bounded-slope log-log line between the shell's edge and the first knot                                          */
LEMMA(lemma_CSb_Photo_Partial)
{
  ND_Z(Z); ND_SHELL(shell); ND_ENERGY(E); ND_ERRSLOT(error);
  double r;
  /* TABLES_WF (Kissel): occupied shells lie within the edge-energy columns; their tables have at least two knots */
  if (Z_OK(Z) && shell >= 0 && shell < SHELLNUM_K && !(Electron_Config_Kissel[Z][shell] < 1.0E-06)) {
    VASSUME(shell < SHELLNUM && !V_ISNAN(Electron_Config_Kissel[Z][shell]) && !V_ISNAN(EdgeEnergy_arr[Z][shell]));
    /* ... and knot / value arrays of their own with at least two entries */
    VCBMC(E_Photo_Partial_Kissel[Z][shell] = malloc(2 * sizeof(double)); Photo_Partial_Kissel[Z][shell] = malloc(2 * sizeof(double));
          __CPROVER_assume(E_Photo_Partial_Kissel[Z][shell] != NULL && Photo_Partial_Kissel[Z][shell] != NULL);)
  }
  GHOST_RESET();
  r = CSb_Photo_Partial(Z, shell, E, error);
  if (!Z_OK(Z) || shell < 0 || shell >= SHELLNUM_K || E <= 0.0 || Electron_Config_Kissel[Z][shell] < 1.0E-06 ||
      EdgeEnergy_arr[Z][shell] <= 0.0 || EdgeEnergy_arr[Z][shell] > E) {
    VCANARY("CSb_Photo_Partial invalid / below edge");
    VASSERT(FAILS(r, error), "CSb_Photo_Partial: invalid arguments, unoccupied shell or energy below the edge is an error");
  } else {
    double lnE = log(E);
    double *X = E_Photo_Partial_Kissel[Z][shell], *Y = Photo_Partial_Kissel[Z][shell], *Y2 = Photo_Partial_Kissel2[Z][shell];
    if (lnE < X[0]) {
      double m = (Y[1] - Y[0]) / (X[1] - X[0]);
      if (m > 1.0) m = 1.0; else if (m < -1.0) m = -1.0;
      VCANARY("CSb_Photo_Partial log-log extension");
      VASSERT(SAME(r, exp(Y[0] + m * (lnE - X[0]))) && NO_ERROR(error),
              "CSb_Photo_Partial between edge and first knot = exp(first value + clamped slope x (ln E - first knot))");
    } else if (!SPL_OK(X, Y, Y2, NE_Photo_Partial_Kissel[Z][shell], lnE)) {
      VASSERT(FAILS(r, error), "CSb_Photo_Partial: above the tabulated range the call fails with one error");
    } else {
      VCANARY("CSb_Photo_Partial interpolated");
      VASSERT(SAME(r, exp(SPL_V(X, Y, Y2, NE_Photo_Partial_Kissel[Z][shell], lnE))) && NO_ERROR(error),
              "CSb_Photo_Partial = exp(spline of the sub-shell table at ln E)");
    }
  }
  ERRSLOT_DONE(error);
}
