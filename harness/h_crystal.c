/* C14 / C13 / C04: the crystal container and the diffraction functions of src/crystal_diffraction.c, real bodies.
 *
 * Container lemmas: every operation is run from an ARBITRARY well-formed array (symbolic capacity, fill level, names,
 * cells, atoms - not the state some script reaches) and must re-establish well-formedness of *the caller's* array plus
 * the view update; since every operation maps WF states to WF states, the invariant holds after any history.
 * Bounds (K5): capacity <= NALLOC, one-character names, stored crystals with 1 atom, added crystal with 2 atoms.
 * libc: qsort / bsearch in executable-contract form (sorted permutation of exactly the range passed; found <=> present);
 * libm: unknown pure functions.  The error setters are ghost stubs.                                                   */
#include "config.h"
#include <stdlib.h>
#include <string.h>
#include "xrayglob.h"
#include "xraylib.h"
#include "xrayvars.h"
#include "xraylib-error-private.h"
#ifndef NALLOC
#define NALLOC 3
#endif
int g_fail;
static xrl_error g_err_obj;
static void ghost_set(xrl_error **err, xrl_error_code code) { if (err) { __CPROVER_assert(*err == NULL, "no error is stored over an existing one"); g_err_obj.code = code; *err = &g_err_obj; g_fail++; } }
void xrl_set_error_literal(xrl_error **err, xrl_error_code code, const char *message) { __CPROVER_assert(message && message[0], "error message is non-empty"); ghost_set(err, code); }
void xrl_set_error(xrl_error **err, xrl_error_code code, const char *format, ...) { __CPROVER_assert(format && format[0], "error format is non-empty"); ghost_set(err, code); }
void xrl_propagate_error(xrl_error **dest, xrl_error *src) { if (dest) { __CPROVER_assert(*dest == NULL, "no error is stored over an existing one"); *dest = src; } }

void *bsearch(const void *key, const void *base, size_t n, size_t sz, int (*cmp)(const void *, const void *))
{
  size_t i;
  for (i = 0; i < n; i++) { const char *p = (const char *)base + i * sz; if (cmp(key, p) == 0) return (void *)p; }
  return NULL;
}
void qsort(void *base, size_t n, size_t sz, int (*cmp)(const void *, const void *))
{
  Crystal_Struct *v = (Crystal_Struct *)base, t;
  size_t i, j;
  __CPROVER_assert(sz == sizeof(Crystal_Struct), "qsort is called on crystal entries");
  for (i = 1; i < n; i++) for (j = i; j > 0; j--)
    if (cmp(&v[j - 1], &v[j]) > 0) { t = v[j - 1]; v[j - 1] = v[j]; v[j] = t; }   /* entries move as whole structs */
}

/* the built-in collection: full (capacity 1), one entry named "m" */
static char builtin_name[2] = "m";
static Crystal_Atom builtin_atom[1];
static Crystal_Struct builtin_entries[1] = {{builtin_name, 1, 1, 1, 90, 90, 90, 1, 1, builtin_atom}};
Crystal_Array Crystal_arr = {1, 1, builtin_entries};

static void nd_cell(Crystal_Struct *c)
{
  double a, b, cc, al, be, ga, v;
  __CPROVER_assume(!__CPROVER_isnand(a) && !__CPROVER_isnand(b) && !__CPROVER_isnand(cc) && !__CPROVER_isnand(al) && !__CPROVER_isnand(be) && !__CPROVER_isnand(ga) && !__CPROVER_isnand(v));
  c->a = a; c->b = b; c->c = cc; c->alpha = al; c->beta = be; c->gamma = ga; c->volume = v;
}
/* an arbitrary well-formed user array */
static char g_names[NALLOC];
static Crystal_Array *wf_array(void)
{
  int na, nc, i;
  Crystal_Array *arr = malloc(sizeof(Crystal_Array));
#ifdef SHAPE_NA
  /* one query per shape (capacity, fill level): with constant shapes the allocation sizes and loop bounds are concrete;
   * names, cells and atoms stay symbolic.  The shapes 0/0 .. NALLOC/NALLOC together cover every state within the bound. */
  na = SHAPE_NA; nc = SHAPE_NC;
#endif
  __CPROVER_assume(arr != NULL && na >= 0 && na <= NALLOC && nc >= 0 && nc <= na);
  arr->n_alloc = na; arr->n_crystal = nc;
  arr->crystal = na ? malloc(na * sizeof(Crystal_Struct)) : NULL;
  __CPROVER_assume(na == 0 || arr->crystal != NULL);
  for (i = 0; i < NALLOC; i++) if (i < nc) {
    char ch;
#ifdef STATIC_STORE
    /* names and atoms of the stored crystals live in two objects of the harness (cheaper points-to sets for strcmp);
     * such an array must not be passed to Crystal_ArrayFree - releasing everything is checked by the Get/List lemma */
    static char name_store[NALLOC][2]; static Crystal_Atom atom_store[NALLOC];
    char *nm = name_store[i]; Crystal_Atom *at = &atom_store[i];
#else
    char *nm = malloc(2); Crystal_Atom *at = malloc(sizeof(Crystal_Atom));
#endif
#ifdef CONCRETE_NAMES
    ch = 'b' + 2 * i;   /* quick tier: the stored names are the constants "b", "d", ...; the added / looked-up name stays symbolic */
#endif
    __CPROVER_assume(nm != NULL && at != NULL && ch >= 'a' && ch <= 'z' && ch != 'm' && (i == 0 || ch > g_names[i - 1]));
    g_names[i] = ch; nm[0] = ch; nm[1] = 0;
    arr->crystal[i].name = nm; arr->crystal[i].n_atom = 1; arr->crystal[i].atom = at;
    nd_cell(&arr->crystal[i]);
  }
  return arr;
}
static int wf(const Crystal_Array *arr)
{
  int i, ok = arr->n_crystal >= 0 && arr->n_crystal <= arr->n_alloc && (arr->n_alloc == 0 || arr->crystal != NULL);
  for (i = 0; i < NALLOC + 1; i++) if (ok && i < arr->n_crystal) {
    ok = ok && arr->crystal[i].name != NULL && arr->crystal[i].atom != NULL && arr->crystal[i].name[0] != 0 && arr->crystal[i].name[1] == 0;
    if (ok && i > 0) ok = ok && arr->crystal[i].name[0] > arr->crystal[i - 1].name[0];
  }
  return ok;
}
static int present(const Crystal_Array *arr, char ch)
{
  int i, f = 0;
  for (i = 0; i < NALLOC + 1; i++) if (i < arr->n_crystal && arr->crystal[i].name[0] == ch) f = 1;
  return f;
}

void lemma_AddCrystal(void)
{
  Crystal_Array *arr = wf_array();
  int nc0 = arr->n_crystal, na0 = arr->n_alloc, i, r, dup;
  char nm[2]; Crystal_Atom at[2]; Crystal_Struct c; char ch;
  xrl_error *e = NULL;
  __CPROVER_assume(ch >= 'a' && ch <= 'z' && ch != 'm');
  nm[0] = ch; nm[1] = 0; c.name = nm; c.n_atom = 2; c.atom = at; nd_cell(&c);
  dup = present(arr, ch);
  g_fail = 0;
  r = Crystal_AddCrystal(&c, arr, &e);
  __CPROVER_assert(wf(arr), "the caller's array is well formed after the addition (sorted, live entries, count within capacity)");
  if (dup) {
    __CPROVER_assert(r == 0 && e != NULL && g_fail == 1 && arr->n_crystal == nc0 && arr->n_alloc == na0, "a duplicate name is rejected with one error and leaves the collection as it was");
    __CPROVER_assert(0, "CANARY duplicate");
  } else {
    __CPROVER_assert(r == 1 && e == NULL && g_fail == 0, "a new crystal is added without error, also beyond the initial capacity");
    __CPROVER_assert(arr->n_crystal == nc0 + 1 && arr->n_alloc >= arr->n_crystal, "the collection holds one more crystal");
    for (i = 0; i < NALLOC; i++) if (i < nc0) __CPROVER_assert(present(arr, g_names[i]), "every crystal that was in the collection is still there");
    __CPROVER_assert(present(arr, ch), "the added crystal is in the collection");
    for (i = 0; i < NALLOC + 1; i++) if (i < arr->n_crystal && arr->crystal[i].name[0] == ch) {
      Crystal_Struct *s = &arr->crystal[i];
      __CPROVER_assert(s->name != nm && s->atom != at, "the stored crystal is an independent copy (no memory shared with the caller's struct)");
      __CPROVER_assert(s->n_atom == 2 && s->a == c.a && s->b == c.b && s->c == c.c && s->alpha == c.alpha && s->beta == c.beta && s->gamma == c.gamma, "stored with the geometry it was given");
      __CPROVER_assert(s->atom[0].Zatom == at[0].Zatom && s->atom[1].Zatom == at[1].Zatom && __CPROVER_equal(s->atom[1].fraction, at[1].fraction) && __CPROVER_equal(s->atom[0].x, at[0].x), "stored with the atoms it was given");
      /* expected volume computed from the caller's geometry (same term as the library computes on the fresh entry before sorting) */
      __CPROVER_assert(__CPROVER_equal(s->volume, Crystal_UnitCellVolume(&c, NULL)), "stored with the cell volume recomputed from the given geometry");
    }
    if (nc0 == na0) __CPROVER_assert(0, "CANARY growth beyond capacity");
    __CPROVER_assert(0, "CANARY added");
  }
#ifndef STATIC_STORE
  Crystal_ArrayFree(arr);   /* releases everything (checked by --memory-leak-check; no double free by the pointer checks) */
#endif
}

void lemma_AddCrystal_builtin_full(void)
{
  char nm[2] = "z"; Crystal_Atom at[2]; Crystal_Struct c; xrl_error *e = NULL; int r;
  c.name = nm; c.n_atom = 2; c.atom = at; nd_cell(&c);
  g_fail = 0;
  r = Crystal_AddCrystal(&c, NULL, &e);
  __CPROVER_assert(r == 0 && e != NULL && g_fail == 1 && e->code == XRL_ERROR_RUNTIME, "the built-in collection refuses to grow past its fixed capacity with an error");
  __CPROVER_assert(Crystal_arr.n_crystal == 1 && Crystal_arr.n_alloc == 1 && Crystal_arr.crystal == builtin_entries, "... and is left as it was");
  __CPROVER_assert(0, "CANARY builtin full");
}

void lemma_Get_List_Copy(void)
{
  Crystal_Array *arr = wf_array();
  xrl_error *e = NULL;
  char key[2]; char ch; int i, n = -1;
  Crystal_Struct *g;
  char **lst;
  __CPROVER_assume(ch >= 'a' && ch <= 'z');
  key[0] = ch; key[1] = 0;
  g_fail = 0;
  g = Crystal_GetCrystal(key, arr, &e);
  if (present(arr, ch)) {
    __CPROVER_assert(g != NULL && e == NULL, "a crystal that is in the collection is found by name");
    for (i = 0; i < NALLOC; i++) if (i < arr->n_crystal && arr->crystal[i].name[0] == ch)
      __CPROVER_assert(g != &arr->crystal[i] && g->name != arr->crystal[i].name && g->atom != arr->crystal[i].atom && g->name[0] == ch && g->n_atom == arr->crystal[i].n_atom && g->a == arr->crystal[i].a && g->atom[0].Zatom == arr->crystal[i].atom[0].Zatom,
                       "lookups hand out independent copies with the stored contents");
    Crystal_Free(g);
    __CPROVER_assert(0, "CANARY found");
  } else {
    __CPROVER_assert(g == NULL && e != NULL && g_fail == 1, "an unknown name is NULL and exactly one error");
  }
  e = NULL;
  lst = Crystal_GetCrystalsList(arr, &n, &e);
  __CPROVER_assert(lst != NULL && e == NULL && n == arr->n_crystal && lst[n] == NULL, "the list has one entry per crystal and is NULL-terminated");
  for (i = 0; i < NALLOC; i++) if (i < n) { __CPROVER_assert(lst[i] != arr->crystal[i].name && lst[i][0] == arr->crystal[i].name[0], "the list is in sorted (collection) order and owns its strings"); free(lst[i]); }
  free(lst);
  __CPROVER_assert(wf(arr), "queries leave the collection well formed");
  Crystal_ArrayFree(arr);
  __CPROVER_assert(0, "CANARY list end");
}

void lemma_ArrayInit(void)
{
  int n; xrl_error *e = NULL; Crystal_Array *a;
  __CPROVER_assume(n <= NALLOC);
  g_fail = 0;
  a = Crystal_ArrayInit(n, &e);
  if (n < 0) __CPROVER_assert(a == NULL && e != NULL && g_fail == 1, "a negative capacity is NULL and one error");
  else { __CPROVER_assert(a != NULL && e == NULL && a->n_crystal == 0 && a->n_alloc == n && wf(a), "a fresh collection is empty, well formed, with the requested capacity"); Crystal_ArrayFree(a); __CPROVER_assert(0, "CANARY init"); }
  Crystal_ArrayFree(NULL); Crystal_Free(NULL);
}

/* copies keep the whole name: a concrete name longer than any limit used elsewhere in the file reader (25 characters) */
void lemma_MakeCopy_long_name(void)
{
  static char nm[] = "abcdefghijklmnopqrstuvwxy";
  Crystal_Atom at[1]; Crystal_Struct c, *k; xrl_error *e = NULL;
  c.name = nm; c.n_atom = 1; c.atom = at; nd_cell(&c);
  g_fail = 0;
  k = Crystal_MakeCopy(&c, &e);
  __CPROVER_assert(k != NULL && e == NULL && k->name != nm && k->atom != at, "Crystal_MakeCopy returns an independent copy");
  __CPROVER_assert(strcmp(k->name, nm) == 0, "the copy carries the complete name");
  __CPROVER_assert(k->n_atom == 1 && k->atom[0].Zatom == at[0].Zatom && __CPROVER_equal(k->a, c.a) && __CPROVER_equal(k->volume, c.volume), "the copy carries the geometry and atoms");
  Crystal_Free(k);
  __CPROVER_assert(Crystal_MakeCopy(NULL, &e) == NULL && e != NULL && g_fail == 1, "Crystal_MakeCopy(NULL) is NULL and one error");
  __CPROVER_assert(0, "CANARY long name");
}
