#!/bin/sh
# Confirm every seeded change in a scratch worktree of /repo's HEAD (outside /repo and /verif):
#   with the patch: tree builds, the 33 baseline tests still pass, the demonstration fails;
#   without it: the demonstration passes.   Results -> /verif/seeded/<id>/confirm.txt
W=/tmp/mutw
git -C /repo worktree remove --force $W 2>/dev/null
git -C /repo worktree add -q --detach $W HEAD || exit 1
cd $W && meson setup _build >/dev/null 2>&1 && ninja -C _build >/dev/null 2>&1 || { echo "baseline build failed"; exit 1; }
rundemo() { # $1 = seeded dir ; prints exit status
  d=$1
  if [ -f $d/run.sh ]; then (cd $d && timeout 900 sh run.sh $W >/tmp/mutw.demo.log 2>&1); echo $?; return; fi
  gcc $d/demo.c -I$W/include -I$W/_build -L$W/_build/src -lxrl -lm -lpthread -o /tmp/mutw.demo 2>/tmp/mutw.demo.log || { echo 99; return; }
  LD_LIBRARY_PATH=$W/_build/src timeout 600 /tmp/mutw.demo >/tmp/mutw.demo.log 2>&1; echo $?
}
for d in /verif/seeded/*/; do
  id=$(basename $d)
  [ -n "$1" ] && [ "$1" != "$id" ] && continue
  cd $W && git checkout -q -- . && ninja -C _build >/dev/null 2>&1
  base=$(rundemo $d)
  if ! git apply --check $d/patch.diff 2>/dev/null; then echo "$id: patch does not apply to HEAD" | tee $d/confirm.txt; continue; fi
  git apply $d/patch.diff
  if ! ninja -C _build >/tmp/mutw.build.log 2>&1; then echo "$id: does not compile" | tee $d/confirm.txt; git checkout -q -- .; continue; fi
  ok=$(meson test -C _build 2>/dev/null | grep -E "^Ok:" | awk '{print $2}')
  mut=$(rundemo $d)
  git checkout -q -- .
  echo "$id: tests_ok_with_patch=$ok demo_exit_unpatched=$base demo_exit_patched=$mut" | tee $d/confirm.txt
done
cd / && git -C /repo worktree remove --force $W
