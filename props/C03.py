"""C03 Errors are reported if and only if the call failed; results are finite."""
from vlib.core import Group
from vlib import audit
from . import common, C01, C05, C06, C09, C10, C13

LEVEL = "proof"
EXPLANATION = ("Protocol obligations of every function under contract: K1 contracts (scalar accessors, closed-form functions) "
               "whose replaced setter contract requires an empty slot at every call site; the FAILS / NO_ERROR assertions of the "
               "K2 value lemmas (aggregates, unit variants, differential, fluorescence, grouped lines); the error-object code "
               "itself; two-run lemmas for 'no slot changes nothing but the reporting'.")
ASSUMPTIONS = [
    "A-libm: finiteness of results that end in exp/asin/log is not decided (libm is an unknown pure function)",
    "error-object lemmas: messages are nondeterministic strings of length <= 3 (bounded)",
    "A-underflow: 'without an error the result is the product/sum of non-zero parts' is proved; that such a product does not underflow to 0 is assumed",
]

CLOSED = [("DCS_Thoms", "src/scattering.c"), ("DCS_KN", "src/scattering.c"), ("MomentTransf", "src/scattering.c"),
          ("CS_KN", "src/scattering.c"), ("ComptonEnergy", "src/scattering.c"), ("DCSP_Thoms", "src/polarized.c"),
          ("DCSP_KN", "src/polarized.c")]


def own_groups(sc, tier, prefix="C03"):
    common.prepare(sc)
    gs = []
    for f, src in CLOSED:
        gs.append(Group("%s.K1.%s" % (prefix, f), "K1", "h_" + f, sources=[src], extra=["harness/h_closed.c", "harness/libm_uf.c"],
                        enforce=f, replace=["xrl_set_error_literal"], backends=("z3", "cvc5"), timeout=600, functions=[f],
                        native_harness="harness/h_closed.c"))
    for lem in ("lemma_error_set_literal", "lemma_error_copy_propagate"):
        gs.append(Group("%s.K5.%s" % (prefix, lem), "K5", lem, sources=["src/xraylib-error.c", "src/xraylib-aux.c"],
                        extra=["harness/h_error.c"], backends=("sat",), timeout=600, unwind=8, leak_check=True,
                        functions=["xrl_set_error_literal", "xrl_error_new_literal", "xrl_error_copy", "xrl_propagate_error",
                                   "xrl_clear_error", "xrl_error_free", "xrl_error_matches", "xrl_strdup"],
                        bounded="message length <= 3"))
    ns = [("CS_Total", "src/cross_sections.c", ["CS_Photo", "CS_Rayl", "CS_Compt"], ["CS_Photo", "CS_Rayl", "CS_Compt", "CS_Energy"], False),
          ("CSb_Photo", "src/cs_barns.c", ["CS_Photo", "AtomicWeight"], [], False),
          ("DCS_Rayl", "src/scattering.c", ["MomentTransf", "FF_Rayl", "AtomicWeight", "DCS_Thoms"], ["MomentTransf", "FF_Rayl", "SF_Compt", "DCS_Thoms", "DCS_KN"], False),
          ("DCSP_Compt", "src/polarized.c", ["MomentTransf", "SF_Compt", "AtomicWeight", "DCSP_KN"], ["DCSP_Thoms", "DCSP_KN"], False),
          ("CS_FluorShell", "src/cs_line.c", ["EdgeEnergy", "JumpFactor", "FluorYield", "CosKronTransProb", "CS_Photo"], ["CS_FluorLine"], True)]
    for f, src, leaves, remove, exp in ns:
        stub, used = common.stubs(sc, leaves, "noslot_" + f)
        gs.append(Group("%s.K2.noslot.%s" % (prefix, f), "K2", "lemma_noslot_" + f, sources=[src],
                        extra=["harness/h_noslot.c", stub, common.STATE], remove_bodies=remove, backends=("cvc5",), timeout=600,
                        functions=[f], stubs_used=used, no_safety=True, export_local=exp, unwind=6))
    return gs


def groups(sc, tier):
    gs = own_groups(sc, tier)
    # the protocol half of the other properties' obligations (same groups, re-run here so that C03 is self-contained)
    gs += [g for g in C01.groups(sc, tier) if g.kind == "K1"]
    gs += C05.value_groups(sc, tier, "C03.via_C05")
    gs += [g for g in C09.fluor_groups(sc, tier, "C03.via_C09") if "CS_FluorShell" in g.name]
    # the three refractive-index entry points (bounded harness of C06): a failing call returns the 0 sentinel with one error
    refr = [g for g in C06.groups(sc, tier) if "Refractive" in g.name]
    for g in refr:
        g.name = "C03.via_" + g.name
    gs += refr
    # crystal diffraction: Bragg angle, Q, atomic factors (a failure carries exactly one error; a zero factor is no failure), bad inputs of F_H
    diffr = [g for g in C13.groups(sc, tier) if g.name in ("C13.K2.Bragg_angle", "C13.K2.Q_scattering_amplitude", "C13.K2.Atomic_Factors", "C13.K2.Atomic_Factors.optional", "C13.K5.F_H.bad_input")]
    for g in diffr:
        g.name = "C03.via_" + g.name
    gs += diffr
    for g in gs:
        if g.name.startswith("C01."):
            g.name = "C03.via_" + g.name
    return gs


def audits(sc, tier, seed):
    return audit.run_table_audit(sc, select=[r"^scalar\.", r"^cross\.form_factor"])
