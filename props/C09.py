"""C09 Jump-ratio XRF cross sections = photo cross section x jump share x yield x rate."""
from vlib.core import Group
from . import common

LEVEL = "proof"
EXPLANATION = ("K2 value lemmas on the real bodies of CS_FluorShell, the four static Jump_from_* functions and CS_FluorLine "
               "(all int line / shell values, all energies, symbolic edge energies so every energy regime is covered).")
ASSUMPTIONS = [
    "the jump share is compared bit-exactly in the library's operation order (canonical Brunetti-2004 expression)",
    "L-beta is compared in its per-sub-shell factorised form share_shell x (sum of member rates) x photo, not as a float sum of member cross sections",
]

LEAVES_SHELL = ["EdgeEnergy", "JumpFactor", "FluorYield", "CosKronTransProb", "CS_Photo"]


def groups(sc, tier):
    return fluor_groups(sc, tier, "C09")


def fluor_groups(sc, tier, prefix, no_safety=True):
    common.prepare(sc)
    gs = []
    stub_s, used_s = common.stubs(sc, LEAVES_SHELL, "fluorshell")
    for sh in ("K_SHELL", "L1_SHELL", "L2_SHELL", "L3_SHELL", None):
        gs.append(Group("%s.K2.CS_FluorShell.%s" % (prefix, sh or "other"), "K2", "lemma_CS_FluorShell", sources=["src/cs_line.c"],
                        extra=["harness/h_fluor.c", stub_s, common.STATE], remove_bodies=["CS_FluorLine"],
                        backends=("cvc5",), timeout=900, functions=["CS_FluorShell", "Jump_from_" + (sh or "K")[:-6]] if sh else ["CS_FluorShell"],
                        native_harness="harness/h_fluor.c", stubs_used=used_s, no_safety=no_safety, export_local=True,
                        harness_defines=["-DFIXED_SHELL=" + sh] if sh else [],
                        expect_canaries=["CS_FluorShell defined", "below edge"] if sh else ["invalid argument"],
                        restrict_retry="V_RESTRICT_LEAVES"))
    stub_l, used_l = common.stubs(sc, ["RadRate", "CS_FluorShell"], "fluorline")
    gs.append(Group(prefix + ".K2.CS_FluorLine.other", "K2", "lemma_CS_FluorLine", sources=["src/cs_line.c"],
                    extra=["harness/h_fluor.c", stub_l, common.STATE], remove_bodies=["CS_FluorShell"],
                    backends=("cvc5",), timeout=900, functions=["CS_FluorLine"], native_harness="harness/h_fluor.c",
                    stubs_used=used_l, no_safety=no_safety, export_local=True, expect_canaries=["another shell"],
                    restrict_retry="V_RESTRICT_LEAVES"))
    # the lines of each shell, enumerated with a constant line in chunks of 8 macro values (the chunks cover the
    # name-derived block exactly; the Siegbahn groups of a shell ride on its first chunk)
    ctx = common.prepare(sc)
    CH = 8    # 13 lines per query take ~130 s, 16 do not finish in 900 s: the cost grows faster than linearly
    for cls, extra in (("K", ["-DENUM_EXTRA1=KA_LINE", "-DENUM_EXTRA2=KB_LINE"]), ("L1", []), ("L2", []), ("L3", ["-DENUM_EXTRA1=LA_LINE"])):
        vals = sorted(v for n, v in ctx["mac"].lines_all if v < 0 and __import__("re").match(r"^%s(?![0-9])" % cls, n))
        first = True
        for lo in range(vals[0], vals[-1] + 1, CH):
            hi = min(lo + CH - 1, vals[-1])
            defs = ["-DENUM_LO=(%d)" % lo, "-DENUM_HI=(%d)" % hi, "-DENUM_CLS=%s_SHELL" % cls] + (extra if first else ["-DENUM_NOEXTRA"])
            first = False
            gs.append(Group("%s.K2.CS_FluorLine.lines_%s.%d..%d" % (prefix, cls, lo, hi), "K2", "lemma_CS_FluorLine_enum", sources=["src/cs_line.c"],
                            extra=["harness/h_fluor.c", stub_l, common.STATE], remove_bodies=["CS_FluorShell"], unwind=CH + 2,
                            backends=("cvc5",), timeout=900, functions=["CS_FluorLine"], native_harness="harness/h_fluor.c",
                            stubs_used=used_l, no_safety=no_safety, export_local=True, harness_defines=defs,
                            expect_canaries=["no rate", "CS_FluorLine defined"], restrict_retry="V_RESTRICT_LEAVES",
                            note="macro values %d..%d of the name-derived %s block, each with a constant line" % (lo, hi, cls)))
    stub_b, used_b = common.stubs(sc, LEAVES_SHELL + ["RadRate"], "fluorlb")
    gs.append(Group(prefix + ".K2.CS_FluorLine.LB", "K2", "lemma_CS_FluorLine", sources=["src/cs_line.c"],
                    extra=["harness/h_fluor.c", stub_b, common.STATE], remove_bodies=["CS_FluorShell"], unwind=12,
                    backends=("cvc5",), timeout=900, functions=["CS_FluorLine", "Jump_from_L1", "Jump_from_L2", "Jump_from_L3"],
                    native_harness="harness/h_fluor.c", stubs_used=used_b, no_safety=no_safety, export_local=True,
                    harness_defines=["-DFIXED_LINE=LB_LINE"], expect_canaries=["CS_FluorLine LB"],
                    restrict_retry="V_RESTRICT_LEAVES"))
    return gs
