"""C11 Auger yields and rates are the documented derivation of the raw tables."""
from vlib.core import Group
from vlib import specgen, audit
from . import common, C01

LEVEL = "proof"
EXPLANATION = ("K2 lemmas on the three static derivation functions of src/pr_data.c (exported for verification only), for all Z, "
               "all raw table contents, every one of the 996 Auger macros (enumerated per shell block with a constant macro) "
               "and every int outside the range; Coster-Kronig type, shell of a transition and the subtracted lists are derived "
               "from the macro names; K1 contracts of the run-time accessors AugerRate / AugerYield (error when the cell is <= 0).")
ASSUMPTIONS = [
    "A-gen: the loop in pr_data.c main that stores AugerRate_prdata / AugerYield_prdata into the shipped tables is glue, not under contract",
    "'each decay channel lies in [0,1]' needs float monotonicity and is not decided (the accessor contract proves that non-positive yields are errors)",
    "no native replay twin: the derivation functions are static and the raw tables are not linked into the library",
]
SHELLS = ["K", "L1", "L2", "L3", "M1", "M2", "M3", "M4", "M5"]


def groups(sc, tier):
    ctx = common.prepare(sc)
    info = specgen.gen_auger_spec(sc, ctx["mac"])
    gs = []
    covered = set()
    stub_y, used_y = common.stubs(sc, ["FluorYield", "CosKronTransProb"], "augeryield")
    srcs = ["src/pr_data.c"]
    for s in SHELLS:
        d = ["-DSH=" + s]
        gs.append(Group("C11.K2.AugerYield_prdata." + s, "K2", "lemma_AugerYield_prdata", sources=srcs, export_local=True,
                        extra=["harness/h_auger.c", stub_y, common.STATE], harness_defines=d, backends=("cvc5",), timeout=600,
                        unwind=8, functions=["AugerYield_prdata"], no_safety=True, stubs_used=used_y, flags=["--drop-unused-functions"]))
        gs.append(Group("C11.K2.AugerYield2_prdata." + s, "K2", "lemma_AugerYield2_prdata", sources=srcs, export_local=True,
                        extra=["harness/h_auger.c", stub_y, common.STATE], harness_defines=d, backends=("cvc5",), timeout=900,
                        unwind=120, functions=["AugerYield2_prdata"], no_safety=True))
        # Auger rates: the block of the shell, enumerated with a constant macro in chunks (large products of UF divisions
        # in one query do not finish; the chunks together cover the block exactly, see the coverage check below)
        blk = [v for n, v, a, b, c, ck in info if a == s]
        CH = 16
        for lo in range(blk[0], blk[-1] + 1, CH) if blk else []:
            hi = min(lo + CH - 1, blk[-1])
            gs.append(Group("C11.K2.AugerRate_prdata.%s.%d-%d" % (s, lo, hi), "K2", "lemma_AugerRate_prdata", sources=srcs, export_local=True,
                            extra=["harness/h_auger.c", "harness/stub_yield2.c", stub_y, common.STATE],
                            harness_defines=d + ["-DT_LO=%d" % lo, "-DT_HI=%d" % hi],
                            remove_bodies=["__CPROVER_file_local_pr_data_c_AugerYield2_prdata"], backends=("cvc5",), timeout=900,
                            unwind=CH + 2, functions=["AugerRate_prdata"], no_safety=True,
                            stubs_used=["AugerYield2_prdata: deterministic UF (its own lemma: AugerYield2_prdata.<shell>)"]))
            covered.update(range(lo, hi + 1))
    gs.append(Group("C11.K2.AugerRate_prdata.range", "K2", "lemma_AugerRate_prdata_range", sources=srcs, export_local=True,
                    extra=["harness/h_auger.c", "harness/stub_yield2.c", stub_y, common.STATE],
                    remove_bodies=["__CPROVER_file_local_pr_data_c_AugerYield2_prdata"], backends=("cvc5",), timeout=600,
                    functions=["AugerRate_prdata"], no_safety=True))
    if covered != set(v for n, v, a, b, c, ck in info):
        from vlib.core import Undecided
        raise Undecided("Auger-rate chunks do not cover the macro range exactly")
    acc = [g for g in C01.groups(sc, tier) if g.name in ("C01.K1.AugerRate", "C01.K1.AugerYield")]
    for g in acc:
        g.name = "C11.via_" + g.name
    return gs + acc


def audits(sc, tier, seed):
    return audit.run_table_audit(sc, select=[r"^scalar\.Auger", r"^scalar\.FluorYield", r"^scalar\.CosKron"])
