"""C16 Queries are pure: results do not depend on call history and leave no trace."""
from vlib.core import Group
from vlib import scan
from . import common, C01, C03, C07

LEVEL = "proof"
EXPLANATION = ("(a) frames: every K1 contract is enforced with __CPROVER_assigns(error != NULL: *error) and nothing else, so no function "
               "under contract writes a table, a file-scope variable or an error object it was not given (dfcc assigns obligations); "
               "(b) supporting static fact over the goto programs of all library sources: no instruction assigns an object of static "
               "lifetime, no mutable function-local static exists, no address of a mutable static escapes to a callee, no call to a "
               "libc function with process-global state; (c) the value lemmas of the other properties are stated over deterministic "
               "UF leaves, i.e. every aggregate is a function of its arguments and the tables alone. By induction on the history "
               "(a)+(b) give 'same bits after any history'.")
ASSUMPTIONS = [
    "the static-state scan is a syntactic fact about CBMC's goto program (direct writes, local statics, escaping addresses, libc calls); writes through pointers are covered by the assigns clauses of the functions under K1 contract only",
    "Crystal_AddCrystal(..., NULL) inserting into the built-in array is the documented exception (the address of Crystal_arr is taken, not written directly)",
    "XRayInit is an empty function (with/without it is the same history)",
]


def groups(sc, tier):
    common.prepare(sc)
    gs = [g for g in C01.groups(sc, tier) if g.kind == "K1"]
    gs += [g for g in C03.own_groups(sc, tier, "C16.via_C03") if g.kind == "K1"]
    for g in gs:
        if g.name.startswith("C01."):
            g.name = "C16.via_" + g.name
    # the one place where the library touches process-global state: the numeric locale is switched for the duration of the
    # scan and restored (ghost model of setlocale, bounded harness of C07)
    loc = [g for g in C07.groups(sc, tier) if ".CompoundParser" in g.name]   # the lemmas on the outer CompoundParser carry the locale obligations
    for g in loc:
        g.name = "C16.via_" + g.name
    return gs + loc


def audits(sc, tier, seed, keep_setlocale=False):
    f, st = scan.scan_library(sc)
    if not keep_setlocale:
        # CompoundParser's setlocale pair is decided by the ghost-locale lemma above (state restored), not by the syntactic scan
        f = [x for x in f if not (x["kind"] == "G" and x["function"] == "CompoundParser" and x["object"] == "setlocale")]
    return scan.as_audits(f, st)
