"""C14 Crystal collections stay consistent under any sequence of operations."""
from vlib.core import Group
from . import common

LEVEL = "other"
EXPLANATION = ("Per-operation preservation of the representation invariant from an ARBITRARY well-formed user array (symbolic capacity, fill "
               "level, names, cells, atoms): Crystal_AddCrystal (with the real static Crystal_ExtendArray: growth beyond capacity is "
               "transparent, duplicates rejected with the collection unchanged, the stored crystal is an independent copy with the given "
               "geometry/atoms and the recomputed volume, every other entry still present, sorted order), Crystal_GetCrystal / "
               "Crystal_MakeCopy (independent copies), Crystal_GetCrystalsList (sorted, NULL-terminated, owned strings), Crystal_ArrayInit, "
               "Crystal_ArrayFree / Crystal_Free (everything released: --memory-leak-check, no double free), the built-in collection refusing "
               "to grow. Since every operation maps well-formed states to well-formed states the invariant holds after any history "
               "(induction over contracts, not a bounded script). Sizes are bounded (K5), hence level 'other', not 'proof'.")
ASSUMPTIONS = [
    "bounded: capacity <= 3 (quick) / 4 (thorough), every fill level 0..capacity, one-character names (stored and added names symbolic), stored crystals with 1 atom, added crystal with 2 atoms; one 25-character name for the copy lemma",
    "assumed libc contracts in executable form: qsort = sorted permutation of exactly the range passed, bsearch = found <=> present",
    "A-libm: sqrt/cos/pow are unknown pure functions (the recomputed volume is compared by congruence)",
    "Crystal_ReadFile (fopen/fgets/sscanf) is not covered: no CBMC model of stdio",
    "additions into a non-empty array are checked on arrays whose stored names and atoms live in static objects of the harness (no leak check in those groups; releasing everything is checked by the lookup/list lemmas on heap-allocated arrays)",
]


def groups(sc, tier):
    common.prepare(sc)
    n = 4 if tier == "thorough" else 3
    kw = dict(sources=["src/crystal_diffraction.c", "src/xrayvars.c", "src/xraylib-aux.c"], extra=["harness/h_crystal.c", "harness/libm_uf.c"],
              export_local=True, harness_defines=["-DNALLOC=%d" % n], backends=("sat", "cvc5", "z3"), timeout=1800, unwind=n + 3, leak_check=True, object_bits=10,
              bounded="capacity <= %d, 1-character names, 1 / 2 atoms" % n)
    gs = [Group("C14.K5.AddCrystal_builtin_full", "K5", "lemma_AddCrystal_builtin_full", functions=["Crystal_AddCrystal"], **kw),
          Group("C14.K5.ArrayInit", "K5", "lemma_ArrayInit", functions=["Crystal_ArrayInit", "Crystal_ArrayFree", "Crystal_Free"], **kw)]
    kwl = dict(kw)
    kwl["unwind"] = 30
    kwl["bounded"] = "one concrete 25-character name, 1 atom"
    gs.append(Group("C14.K5.MakeCopy_long_name", "K5", "lemma_MakeCopy_long_name", functions=["Crystal_MakeCopy", "Crystal_Free"], **kwl))
    for na in range(0, n + 1):
        for nc in range(0, na + 1):
            kw2 = dict(kw)
            kw2["harness_defines"] = kw["harness_defines"] + ["-DSHAPE_NA=%d" % na, "-DSHAPE_NC=%d" % nc]
            kw2["bounded"] = "capacity %d, %d stored crystals (1-character names, 1 / 2 atoms)" % (na, nc)
            if nc > 0:
                kw2["harness_defines"] = kw2["harness_defines"] + ["-DSTATIC_STORE"]
                kw2["leak_check"] = False
                kw2["bounded"] += "; stored and added names symbolic"
            gs.append(Group("C14.K5.AddCrystal.cap%d_fill%d" % (na, nc), "K5", "lemma_AddCrystal",
                            functions=["Crystal_AddCrystal", "Crystal_ExtendArray", "Crystal_MakeCopy", "Crystal_ArrayFree", "Crystal_UnitCellVolume"],
                            expect_canaries=(["added"] + (["growth"] if nc == na else []) + (["duplicate"] if nc > 0 else [])),
                            **kw2))
            kw2 = dict(kw)
            kw2["harness_defines"] = kw["harness_defines"] + ["-DSHAPE_NA=%d" % na, "-DSHAPE_NC=%d" % nc]
            kw2["bounded"] = "capacity %d, %d stored crystals (1-character names, 1 / 2 atoms)" % (na, nc)
            gs.append(Group("C14.K5.Get_List_Copy.cap%d_fill%d" % (na, nc), "K5", "lemma_Get_List_Copy",
                            functions=["Crystal_GetCrystal", "Crystal_MakeCopy", "Crystal_GetCrystalsList", "Crystal_Free", "Crystal_ArrayFree"],
                            expect_canaries=(["list end"] + (["found"] if nc > 0 else [])), **kw2))
    return gs
