"""C06 Compound quantities follow the mass-fraction mixture rule."""
from vlib.core import Group
from . import common

LEVEL = "other"   # every group is a bounded stand-in (K5): never reported as proof
EXPLANATION = ("K5 value lemmas on the real bodies of the 21 macro-generated _CP functions and the three refractive-index entry points: "
               "mixture sum over the composition, resolution order formula -> NIST -> error, density fall-back, failing element fails "
               "the call, temporaries released on every exit.  Compositions of up to N elements (N = 3 quick, 5 thorough); parser and "
               "NIST lookup are replaced by their assumed contracts (discharged under C07 / C15).")
ASSUMPTIONS = [
    "bounded: compositions of at most 3 (quick) / 5 (thorough) elements - reported as bounded, not as proof",
    "assumed contract of CompoundParser / GetCompoundDataNISTByName: NULL or a fresh composition with positive finite mass fractions (C07, C15)",
]
CP = ["CS_Total", "CS_Photo", "CS_Rayl", "CS_Compt", "CSb_Total", "CSb_Photo", "CSb_Rayl", "CSb_Compt", "CS_Energy",
      "CS_Photo_Total", "CSb_Photo_Total", "CS_Total_Kissel", "CSb_Total_Kissel", "DCS_Rayl", "DCS_Compt", "DCSb_Rayl",
      "DCSb_Compt", "DCSP_Rayl", "DCSP_Compt", "DCSPb_Rayl", "DCSPb_Compt"]


def groups(sc, tier):
    common.prepare(sc)
    n = 5 if tier == "thorough" else 3
    gs = []
    stub, used = common.stubs(sc, CP, "cp")
    KINDS = (("unknown", 0, ["unknown compound"]), ("formula", 1, ["element fails", "defined"]), ("nist", 2, ["element fails", "defined"]))
    for f in CP:
        for kname, k, can in KINDS:
            gs.append(Group("C06.K5.%s_CP.%s" % (f, kname), "K5", "lemma_%s_CP" % f, sources=["src/cs_cp.c"],
                            extra=["harness/h_cp.c", stub, common.STATE], harness_defines=["-DNMAXEL=%d" % n, "-DKIND=%d" % k],
                            backends=("cvc5",), timeout=600, unwind=n + 2, functions=[f + "_CP"], stubs_used=used, no_safety=True,
                            bounded="compositions of <= %d elements" % n, restrict_retry="V_RESTRICT_LEAVES", expect_canaries=can))
    stub2, used2 = common.stubs(sc, ["Fi", "AtomicWeight", "CS_Total"], "refr")
    for f, tag in (("Refractive_Index_Re", "Re"), ("Refractive_Index_Im", "Im"), ("Refractive_Index", "complex")):
        gs.append(Group("C06.K5.%s.nist_as_formula" % f, "K5", "lemma_%s_nist_as_formula" % f, sources=["src/refractive_indices.c"],
                        extra=["harness/h_cp.c", stub2, common.STATE], harness_defines=["-DNMAXEL=%d" % n],
                        backends=("cvc5",), timeout=600, unwind=n + 2, functions=[f], stubs_used=used2, no_safety=True,
                        bounded="compositions of <= %d elements" % n, expect_canaries=["nist defined", "nist fails"]))
        for kname, k, can in (("unknown", 0, ["invalid input"]), ("formula", 1, ["invalid input", tag + " element fails", tag + " defined"])):
            gs.append(Group("C06.K5.%s.%s" % (f, kname), "K5", "lemma_" + f, sources=["src/refractive_indices.c"],
                            extra=["harness/h_cp.c", stub2, common.STATE], harness_defines=["-DNMAXEL=%d" % n, "-DKIND=%d" % k],
                            backends=("cvc5",), timeout=600, unwind=n + 2, functions=[f], stubs_used=used2, no_safety=True,
                            bounded="compositions of <= %d elements" % n, restrict_retry="V_RESTRICT_LEAVES", expect_canaries=can))
    return gs
