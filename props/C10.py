"""C10 Grouped line energies and rates are the stated averages of their member lines."""
from vlib.core import Group
from . import common

LEVEL = "proof"
EXPLANATION = ("K2 value lemmas on the real bodies of RadRate, LineEnergy and LineEnergyComposed: every group branch is "
               "compared bit-exactly with the expression of the property recomputed over members derived from the macro "
               "names; tables symbolic; all int line values.")
ASSUMPTIONS = [
    "TABLES_WF(lines): tabulated rates and line energies are finite and >= 0 (audited natively)",
    "K-beta members are the K[MNOP]* slots in header order without KP5 (TABLES_WF: RadRate of KP5 is 0 for every element; audited)",
    "L-beta members are the LB<n> Siegbahn aliases plus L3N6 and L3N7 (the set the library publishes for L-beta)",
    "the real-number corollary 'the mean lies between the smallest and largest member energy' is not asserted (float rounding makes it false by one ulp)",
]


def line_groups(sc, tier, prefix, which=("group", "single"), no_safety=True):
    ctx = common.prepare(sc)
    stub_le, used = common.stubs(sc, ["RadRate", "CS_FluorLine", "EdgeEnergy"], "lineenergy")
    stub_rr, used2 = common.stubs(sc, [], "radrate")
    tabs = common.tables_regex(["RadRate_arr", "LineEnergy_arr"])
    gs = []

    def rr(name, defs, canaries):
        return Group(prefix + ".K2.RadRate." + name, "K2", "lemma_RadRate", sources=["src/radrate.c"],
                     extra=["harness/h_lines.c", stub_rr, common.STATE], unwind=30,
                     backends=("cvc5",), canary_backends=("cvc5",), timeout=900, functions=["RadRate"],
                     native_harness="harness/h_lines.c", stubs_used=used2, harness_defines=defs, expect_canaries=canaries,
                     no_safety=no_safety)

    def le(name, defs, canaries, attempt_only=False, flags=()):
        return Group(prefix + ".K2.LineEnergy." + name, "K2", "lemma_LineEnergy", sources=["src/fluor_lines.c"],
                     extra=["harness/h_lines.c", stub_le, common.STATE], unwind=30, export_local=True,
                     backends=("cvc5",), canary_backends=("cvc5",), timeout=900,
                     functions=["LineEnergy", "LineEnergyComposed"], native_harness="harness/h_lines.c", stubs_used=used,
                     harness_defines=defs, expect_canaries=canaries, attempt_only=attempt_only, flags=list(flags),
                     no_safety=no_safety)
    if "group" in which:
        for m, c in (("KA_LINE", "RadRate KA"), ("KB_LINE", "RadRate KB"), ("LA_LINE", "RadRate LA"), ("LB_LINE", None)):
            gs.append(rr(m, ["-DFIXED_LINE=" + m], [c] if c else []))
        for m, c in (("KA_LINE", "LineEnergy KA"), ("KB_LINE", "LineEnergy KB"), ("LA_LINE", "two-member")):
            gs.append(le(m, ["-DFIXED_LINE=" + m], [c]))
        # L-beta (13 members, each with a guarded product): no back end finishes in 15 min -> attempted in the thorough tier only
        gs.append(le("LB_LINE", ["-DFIXED_LINE=LB_LINE"], ["LineEnergy LB"], attempt_only=True))
        for d in ctx["lines"]["doublets"]:
            gs.append(le(d[0], ["-DFIXED_LINE=" + d[0]], ["two-member"]))
        for m in ("KO_LINE", "KP_LINE"):
            gs.append(le(m, ["-DFIXED_LINE=" + m], ["single line with a record"]))
    if "single" in which:
        gs.append(rr("single", [], ["Z out of range", "single line with a record", "single line without record"]))
        gs.append(le("single", [], ["Z out of range", "single line with a record", "single line without record"], flags=["--slice-formula"]))
    return gs


def groups(sc, tier):
    return line_groups(sc, tier, "C10", which=("group",))
