"""Shared set-up for the property modules: generated headers, table regexes, common flags."""
from vlib import specgen
from vlib.core import Group

_cache = {}


def prepare(sc):
    """Generate gen/leaves.h and gen/spec_lines.h from the headers of the current tree (once per scratch)."""
    key = sc.dir
    if key not in _cache:
        mac = specgen.Macros(sc.inc)
        protos = specgen.parse_prototypes(sc.inc, sc.src)
        specgen.gen_leaves(sc, protos)
        lines = specgen.gen_line_spec(sc, mac)
        _cache[key] = {"mac": mac, "protos": protos, "lines": lines}
    return _cache[key]


def stubs(sc, names, tag, **kw):
    ctx = prepare(sc)
    path, used = specgen.gen_stubs(sc, ctx["protos"], names, tag, **kw)
    return path, used


def tables_regex(names):
    return ".*(" + "|".join(names) + ")$"


STATE = "harness/vstub_state.c"
