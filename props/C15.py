"""C15 Built-in databases are self-consistent and addressable in every documented way."""
import os
import re
from vlib.core import Group, Undecided
from vlib import specgen
from . import common

LEVEL = "proof"
EXPLANATION = ("K3 constant-data lemmas over the real static initialisers (the catalogue sources are compiled into the harness unit): NIST "
               "compounds (180: ascending distinct valid Z, positive fractions summing to 1 +- 1e-4, positive density, unique names, each "
               "published index macro names the entry at its position), radionuclides (A = Z + N, name = A || symbol(Z), valid lines, macros), "
               "element table (Zatom = index + 1, unique symbols); lookup lemmas on the real bodies: by index = independent deep copy of "
               "entry i for every i, out of range / unknown / NULL name = NULL + exactly one error, by name agrees with by index, nothing left "
               "allocated (--memory-leak-check); symbol <-> Z round trip for all 107 elements and every int outside.")
ASSUMPTIONS = [
    "assumed libc contract of lfind: linear search returning the first element for which compar == 0 (given in executable form in the harness)",
    "'nuclide X-ray lines all have an energy for the daughter element' depends on the generated line table: K4 audit only (TABLES_WF), not part of this check",
    "the built-in crystal catalogue lives in the 19 MB generated file and is not part of this check (see C14 / not claimed)",
    "by-name lookup is checked for 8 entries in the quick tier and all 180 in the thorough tier (each is a concrete run of the real code)",
]


def mendel_tu(sc):
    """cut the MendelArray initialiser out of src/xrayglob.c (mechanical extraction; drops every other table definition)"""
    txt = open(os.path.join(sc.src, "xrayglob.c")).read()
    m = re.search(r"struct MendelElement MendelArray\[MENDEL_MAX\] = \{.*?\};", txt, re.S)
    if not m:
        raise Undecided("MendelArray initialiser not found in src/xrayglob.c")
    p = os.path.join(sc.gen_dir(), "mendel.c")
    with open(p, "w") as f:
        f.write('/* extracted from src/xrayglob.c: the element table only */\n#include "config.h"\n#include "xraylib-defs.h"\n#include "xrayglob.h"\n' + m.group(0) + "\n")
    return p


def groups(sc, tier):
    common.prepare(sc)
    specgen.gen_catalog_spec(sc)
    men = mendel_tu(sc)
    gs = []
    common_kw = dict(sources=["src/xraylib-aux.c"], extra=["harness/h_catalog.c", men], backends=("sat",), timeout=1500, no_safety=False,
                     leak_check=True, object_bits=12)
    gs.append(Group("C15.K3.nist_data", "K3", "k3_nist", unwind=185, functions=["compoundDataNISTList[]", "NIST_COMPOUND_* macros"], **common_kw))
    gs.append(Group("C15.K3.nuclide_and_element_data", "K3", "k3_nuclides", unwind=145, functions=["nuclideDataList[]", "MendelArray[]", "RADIO_NUCLIDE_* macros"], **common_kw))
    gs.append(Group("C15.K2.nist_by_index", "K2", "lemma_nist_lookup", unwind=185, functions=["GetCompoundDataNISTByIndex", "FreeCompoundDataNIST"], **common_kw))
    step = 8
    rng = range(0, 180, step) if tier == "thorough" else range(0, step, step)
    for lo in rng:
        kw = dict(common_kw)
        gs.append(Group("C15.K2.nist_by_name.%d-%d" % (lo, lo + step - 1), "K2", "lemma_nist_byname", unwind=185,
                        harness_defines=["-DNAME_LO=%d" % lo, "-DNAME_HI=%d" % (lo + step - 1)],
                        functions=["GetCompoundDataNISTByName", "CompareCompoundDataNIST"], **kw))
    gs.append(Group("C15.K2.nist_null_name", "K2", "lemma_nist_null_name", unwind=185, functions=["GetCompoundDataNISTByName"], **common_kw))
    gs.append(Group("C15.K2.nuclide_lookups", "K2", "lemma_nuclide_lookup", unwind=145,
                    functions=["GetRadioNuclideDataByIndex", "GetRadioNuclideDataByName", "FreeRadioNuclideData"], **common_kw))
    gs.append(Group("C15.K2.symbols", "K2", "lemma_symbols", sources=["src/xraylib-parser.c", "src/xraylib-aux.c"], extra=["harness/h_symbols.c", men],
                    backends=("sat",), timeout=1500, unwind=110, leak_check=True, object_bits=10,
                    functions=["AtomicNumberToSymbol", "SymbolToAtomicNumber"]))
    return gs
