"""C02 Interpolated quantities follow the shipped spline and never extrapolate."""
from vlib.core import Group
from vlib import loops, audit
from . import common

LEVEL = "proof"
EXPLANATION = ("(a) splint(): real body with an injected loop contract (bracket invariant + decreases), symbolic number of knots up to "
               "10^6: failure <=> abscissa outside [first knot, last knot + 1e-7], one error and *y = 0; every read inside the three "
               "arrays; termination; the result interval is adjacent and brackets x by value. (c) the twelve call sites: "
               "result = post(splint(table triple of that quantity, N, pre(argument))), splint and libm as UF leaves.")
ASSUMPTIONS = [
    "the 1e-7 guard band above the last knot is part of splint's contract ('inside' means x <= last knot + 1e-7)",
    "TABLES_WF(splines): N >= 2, three live arrays of N finite doubles, non-decreasing abscissae (audited natively; duplicate knots occur at absorption edges)",
    "the cubic itself and 'equals the tabulated value at every knot' are float identities over multiplications/divisions: not decided (A-ieee); the bracket obligation pins the interval the cubic is evaluated on",
    "A-libm: log/exp are unknown pure functions",
]

SITES = [("CS_Photo", "src/cross_sections.c"), ("CS_Rayl", "src/cross_sections.c"), ("CS_Compt", "src/cross_sections.c"),
         ("CS_Energy", "src/cross_sections.c"), ("Fi", "src/fi.c"), ("Fii", "src/fii.c"), ("FF_Rayl", "src/scattering.c"),
         ("SF_Compt", "src/scattering.c"), ("ComptonProfile", "src/comptonprofiles.c"),
         ("ComptonProfile_Partial", "src/comptonprofiles.c"), ("CSb_Photo_Partial", "src/kissel_pe.c")]

SPLINT_LOOP = [{"function": "splint", "ordinal": 0,
                "clauses": ["__CPROVER_assigns(k, klo, khi)",
                            "__CPROVER_loop_invariant(1 <= klo && klo < khi && khi <= n && !(xa[klo] > x) && (xa[khi] > x || khi == n))",
                            "__CPROVER_decreases(khi - klo)"],
                "after": ['__CPROVER_assert(khi == klo + 1 && !(xa[klo] > x) && (xa[khi] > x || khi == n), "splint: the interval used is adjacent and brackets x by value");']}]


def splint_group(sc, prefix="C02"):
    rel = loops.inject(sc, "src/splint.c", SPLINT_LOOP)
    return Group(prefix + ".K1.splint", "K1", "h_splint", sources=[rel], extra=["harness/h_splint.c"], loop_contracts=True,
                 backends=("sat",), timeout=1500, functions=["splint"], note="loop contract injected (function splint, loop 0)")


def site_groups(sc, prefix="C02"):
    gs = []
    for f, src in SITES:
        gs.append(Group("%s.K2.%s" % (prefix, f), "K2", "lemma_" + f, sources=[src],
                        extra=["harness/h_interp.c", "harness/libm_uf.c", common.STATE], remove_bodies=[],
                        backends=("cvc5",), timeout=600, functions=[f], native_harness="harness/h_interp.c", no_safety=True,
                        export_local=(src == "src/kissel_pe.c"), unwind=33 if src == "src/kissel_pe.c" else None,
                        stubs_used=["splint: deterministic UF of (knots, values, second derivatives, N, x); fails <=> its ok flag"]))
    return gs


def groups(sc, tier):
    common.prepare(sc)
    return [splint_group(sc)] + site_groups(sc)


def audits(sc, tier, seed):
    return audit.run_table_audit(sc, select=[r"^spline\.", r"^compton\.shape", r"^cross\.kissel"])
