"""C01 Scalar lookups return exactly the shipped table value, or an error."""
from vlib.core import Group

LEVEL = "proof"
EXPLANATION = ("K1: every scalar accessor is enforced (goto-instrument --dfcc --enforce-contract) against the functional "
               "post-condition of the property, for all int arguments and all table contents without NaN cells; "
               "K3: name chain macro <-> slot <-> name table; K4: TABLES_WF audited on the built tables.")
ASSUMPTIONS = []

ACCESSORS = [
    ("AtomicWeight", "src/atomicweight.c"),
    ("ElementDensity", "src/densities.c"),
    ("EdgeEnergy", "src/edges.c"),
    ("FluorYield", "src/fluor_yield.c"),
    ("JumpFactor", "src/jump.c"),
    ("AtomicLevelWidth", "src/atomiclevelwidth.c"),
    ("CosKronTransProb", "src/coskron.c"),
    ("AugerRate", "src/auger_trans.c"),
    ("AugerYield", "src/auger_trans.c"),
    ("ElectronConfig", "src/kissel_pe.c"),
    ("ElectronConfig_Biggs", "src/comptonprofiles.c"),
]


def groups(sc, tier):
    gs = []
    for f, src in ACCESSORS:
        g = Group("C01.K1." + f, "K1", "h_" + f, sources=[src], extra=["harness/h_scalars.c"],
                  enforce=f, replace=["xrl_set_error_literal"], backends=("z3", "cvc5"), timeout=600, functions=[f], native_harness="harness/h_scalars.c")
        gs.append(g)
    return gs
