"""C01 Scalar lookups return exactly the shipped table value, or an error."""
from vlib.core import Group
from vlib import specgen, audit
from . import common, C10

LEVEL = "proof"
EXPLANATION = ("K1: every scalar accessor is enforced (goto-instrument --dfcc --enforce-contract) against the functional "
               "post-condition of the property, for all int arguments and all table contents without NaN cells; "
               "K3: name chain macro <-> slot <-> name table; K4: TABLES_WF audited on the built tables.")
ASSUMPTIONS = []

ACCESSORS = [
    ("AtomicWeight", "src/atomicweight.c"),
    ("ElementDensity", "src/densities.c"),
    ("EdgeEnergy", "src/edges.c"),
    ("FluorYield", "src/fluor_yield.c"),
    ("JumpFactor", "src/jump.c"),
    ("AtomicLevelWidth", "src/atomiclevelwidth.c"),
    ("CosKronTransProb", "src/coskron.c"),
    ("AugerRate", "src/auger_trans.c"),
    ("AugerYield", "src/auger_trans.c"),
    ("ElectronConfig", "src/kissel_pe.c"),
    ("ElectronConfig_Biggs", "src/comptonprofiles.c"),
]


def groups(sc, tier):
    gs = []
    for f, src in ACCESSORS:
        g = Group("C01.K1." + f, "K1", "h_" + f, sources=[src], extra=["harness/h_scalars.c"],
                  enforce=f, replace=["xrl_set_error_literal"], backends=("z3", "cvc5"), timeout=600, functions=[f], native_harness="harness/h_scalars.c")
        gs.append(g)
    # single-line branches of LineEnergy / RadRate (K2, shared harness with C10)
    gs += C10.line_groups(sc, tier, "C01", which=("single",))
    # K3: macro <-> slot <-> name table (the table the build-time parser files data records by)
    ctx = common.prepare(sc)
    path, n = specgen.gen_name_chain(sc, ctx["mac"])
    gs.append(Group("C01.K3.name_chain", "K3", "k3_names", sources=["src/xrayvars.c"], extra=[path], backends=("sat",),
                    timeout=600, functions=["LineName[]", "ShellName[]", "TransName[]", "AugerName[]"], no_safety=True,
                    note="%d macros" % n))
    return gs


def audits(sc, tier, seed):
    return audit.run_table_audit(sc, select=[r"^scalar\.", r"^compton\.shape", r"^lines\."])
