"""C13 Crystal diffraction results obey Bragg's law and structure-factor algebra (partial)."""
from vlib.core import Group
from . import common

LEVEL = "other"
EXPLANATION = ("PARTIAL. Decided: error protocol and memory safety of Bragg_angle, Q_scattering_amplitude, Atomic_Factors, "
               "Crystal_F_H_StructureFactor_Partial (NULL crystal, atomic numbers outside the tables, invalid flags, no reflection => error "
               "instead of NaN); Bragg angle = asin(hc/E / 2d) and Q = E sin(rel theta_B)/hc as congruence lemmas; atomic factors = (FF(q), "
               "f'(E), -f''(E)) x Debye factor, failing exactly when a requested factor is unavailable (a factor of exactly 0 is a value; any subset of the outputs may be NULL); the structure factor equals the explicit sum over atoms with the atomic factors the library "
               "reports (bounded: 2 atoms; same element twice checks the per-element cache; all 12 valid flag combinations + invalid ones); "
               "the d-spacing equals the triclinic reciprocal-metric expression and the cell volume its closed form (congruences over unknown sin/cos/sqrt/pow). "
               "NOT decided by this family (needs properties of sin/cos/asin/sqrt or real algebra): 2 d sin(theta) = hc/E, inversion and 1/n "
               "scaling of d (real algebra on that expression), stored = recomputed volume for the built-in crystals (data), Friedel's law, "
               "additivity in the flags, the (0,0,0) Debye reduction.")
ASSUMPTIONS = ["bounded: crystals of 2 atoms (structure-factor lemma)", "A-libm: sin/cos/asin are unknown pure functions"]


def groups(sc, tier):
    common.prepare(sc)
    gs = []
    base = dict(sources=["src/crystal_diffraction.c"], export_local=True, backends=("cvc5", "z3"), timeout=900, unwind=4)
    allfn = ["Crystal_dSpacing", "Bragg_angle", "Q_scattering_amplitude", "Atomic_Factors"]

    def rm(*keep):
        return [f for f in allfn if f not in keep]
    stub0, u0 = common.stubs(sc, [], "diffr0")
    gs.append(Group("C13.K2.Bragg_angle", "K2", "lemma_Bragg_angle", extra=["harness/h_diffraction.c", "harness/libm_uf.c", stub0, common.STATE],
                    remove_bodies=["Crystal_dSpacing"], harness_defines=["-DSTUB_DSPACING"], functions=["Bragg_angle"], **base))
    gs.append(Group("C13.K2.Q_scattering_amplitude", "K2", "lemma_Q_scattering_amplitude", extra=["harness/h_diffraction.c", "harness/libm_uf.c", stub0, common.STATE],
                    remove_bodies=["Bragg_angle"], harness_defines=["-DSTUB_BRAGG"], functions=["Q_scattering_amplitude"], **base))
    for lem, fn in (("lemma_dSpacing", "Crystal_dSpacing"), ("lemma_UnitCellVolume", "Crystal_UnitCellVolume")):
        gs.append(Group("C13.K2." + fn, "K2", lem, extra=["harness/h_diffraction.c", "harness/libm_uf.c", stub0, common.STATE],
                        harness_defines=["-DLEMMA_GEOMETRY", "-DLIBM_CONCRETE_IN_PREPASS"], functions=[fn], restrict_retry="V_RESTRICT_LEAVES", **base))
    stub1, u1 = common.stubs(sc, ["FF_Rayl", "Fi", "Fii"], "diffr1")
    gs.append(Group("C13.K2.Atomic_Factors", "K2", "lemma_Atomic_Factors", extra=["harness/h_diffraction.c", "harness/libm_uf.c", stub1, common.STATE],
                    harness_defines=["-DLEMMA_ATOMIC_FACTORS"], functions=["Atomic_Factors"], stubs_used=u1, **base))
    gs.append(Group("C13.K2.Atomic_Factors.optional", "K2", "lemma_Atomic_Factors_optional", extra=["harness/h_diffraction.c", "harness/libm_uf.c", stub1, common.STATE],
                    harness_defines=["-DLEMMA_ATOMIC_FACTORS"], functions=["Atomic_Factors"], stubs_used=u1, **base))
    flagsets = [(a, b, c) for a in (0, 1, 2) for b in (0, 2) for c in (0, 2)] if tier == "thorough" else [(2, 2, 2), (1, 0, 0), (0, 2, 2), (2, 0, 2)]
    for za, zb in ((26, 8), (26, 26)):
        for a, b, c in flagsets + [(3, 2, 2), (2, 1, 2), (2, 2, 1)]:
            valid = a in (0, 1, 2) and b in (0, 2) and c in (0, 2)
            gs.append(Group("C13.K5.F_H.Z%d_%d.flags%d%d%d" % (za, zb, a, b, c), "K5", "lemma_F_H",
                            extra=["harness/h_diffraction.c", "harness/libm_uf.c", stub0, common.STATE],
                            remove_bodies=["Q_scattering_amplitude", "Atomic_Factors"],
                            harness_defines=["-DSTUB_FH_CALLEES", "-DZA=%d" % za, "-DZB=%d" % zb, "-DF0FLAG=%d" % a, "-DF1FLAG=%d" % b, "-DF2FLAG=%d" % c],
                            functions=["Crystal_F_H_StructureFactor_Partial"], bounded="2 atoms", no_safety=False,
                            expect_canaries=["F_H fails", "F_H defined"] if valid else ["F_H fails"], **base))
    gs.append(Group("C13.K5.F_H.bad_input", "K5", "lemma_F_H_badinput", extra=["harness/h_diffraction.c", "harness/libm_uf.c", stub0, common.STATE],
                    remove_bodies=["Q_scattering_amplitude", "Atomic_Factors"], harness_defines=["-DSTUB_FH_CALLEES"],
                    functions=["Crystal_F_H_StructureFactor_Partial"], bounded="1 atom", **base))
    return gs
