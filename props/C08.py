"""C08 Kissel XRF cross sections equal the cascade model built from the primitives."""
from vlib.core import Group
from vlib import specgen, audit
from . import common

LEVEL = "proof"
EXPLANATION = ("Three layers of K2 value lemmas whose right-hand sides are generated from the macro names: (1) the 16 vacancy-transfer "
               "constant functions of xrf_cross_sections_aux-private.c; (2) the 32 vacancy-production functions of "
               "xrf_cross_sections_aux.c (4 variants x L1..M5); (3) the four CS_FluorShell_Kissel_* variants for each of K..M5 and "
               "for every other shell value; (4) the line dispatch: Siegbahn groups, L-beta sum and out-of-range macros for all four variants, "
               "all 383 single-line macros enumerated with a constant line for the full-cascade instantiation (the other three share the macro body; their L-beta sum is attempted in the thorough tier only). "
               "All Z, all energies, all table contents (hence both Kissel configurations).")
ASSUMPTIONS = [
    "A-gen: the glue in pr_data.c main that stores layer (1) into xrf_cross_sections_constants_* is not under contract",
    "orderings none <= radiative <= full need float monotonicity and are not decided",
    "identities are bit-exact in the library's operation order; Auger terms in ascending macro order",
]


def groups(sc, tier):
    ctx = common.prepare(sc)
    (p1, p23), gr, sig = specgen.gen_cascade(sc, ctx["mac"])
    gs = []
    st1, u1 = common.stubs(sc, ["AugerRate", "AugerYield", "FluorYield", "RadRate"], "casc1")
    for name, fn in gr["layer1"]:
        gs.append(Group("C08.K2.L1." + fn, "K2", name, sources=["src/xrf_cross_sections_aux-private.c"], extra=[p1, st1, common.STATE],
                        backends=("cvc5",), timeout=600, functions=[fn], stubs_used=u1, no_safety=True,
                        restrict_retry="V_RESTRICT_LEAVES"))
    st2, u2 = common.stubs(sc, ["CS_Photo_Partial", "FluorYield", "RadRate", "CosKronTransProb"], "casc2")
    for name, fn in gr["layer2"]:
        gs.append(Group("C08.K2.L2." + fn, "K2", name, sources=["src/xrf_cross_sections_aux.c"], extra=[p23, st2, common.STATE],
                        backends=("cvc5",), timeout=600, functions=[fn], stubs_used=u2, no_safety=True, native_harness=p23,
                        restrict_retry="V_RESTRICT_LEAVES"))
    pfuncs = sorted(sig.keys())
    st3, u3 = common.stubs(sc, ["CS_Photo_Partial", "FluorYield"] + pfuncs, "casc3")
    rm = ["CS_Photo_Partial", "CSb_Photo_Partial", "CS_Photo_Total", "CSb_Photo_Total"]
    for name, fn, t, kind in gr["layer3"]:
        gs.append(Group("C08.K2.L3.%s.%s" % (fn, t), "K2", name, sources=["src/kissel_pe.c"], extra=[p23, st3, common.STATE],
                        remove_bodies=rm, backends=("cvc5",), timeout=600, functions=[fn], stubs_used=u3, no_safety=True,
                        export_local=True, native_harness=p23, unwind=33, restrict_retry="V_RESTRICT_LEAVES",
                        expect_canaries=None if t == "other" else ["defined"]))
    # barn twins of every variant and the un-suffixed aliases (same harness vocabulary as C05)
    variants4 = ("Cascade", "Nonradiative_Cascade", "Radiative_Cascade", "no_Cascade")
    allk = ["CS_FluorLine_Kissel_" + v for v in variants4] + ["CS_FluorShell_Kissel_" + v for v in variants4]
    stb, ub = common.stubs(sc, allk, "kbarn")
    rmb = rm + allk + ["CS_Total_Kissel"]
    for kind in ("Line", "Shell"):
        for v in variants4:
            fb = "CSb_Fluor%s_Kissel_%s" % (kind, v)
            gs.append(Group("C08.K2.barn." + fb, "K2", "lemma_" + fb, sources=["src/kissel_pe.c"], extra=["harness/h_cs.c", stb, common.STATE],
                            remove_bodies=rmb, backends=("cvc5",), timeout=600, functions=[fb], stubs_used=ub, no_safety=True, export_local=True,
                            unwind=33, native_harness="harness/h_cs.c", restrict_retry="V_RESTRICT_LEAVES", expect_canaries=["defined"]))
        fa = "CS_Fluor%s_Kissel" % kind
        gs.append(Group("C08.K2.alias." + fa, "K2", "lemma_" + fa, sources=["src/kissel_pe.c"], extra=["harness/h_cs.c", stb, common.STATE],
                        remove_bodies=rmb, backends=("cvc5",), timeout=600, functions=[fa], stubs_used=ub, no_safety=True, export_local=True,
                        unwind=33, native_harness="harness/h_cs.c", expect_canaries=["defined"]))
    # line dispatch (macro CS_FLUORLINE_BODY): Siegbahn groups + out-of-range for all four instantiations; the 383 single-line
    # macros enumerated with a constant line in chunks of 32 for the full-cascade instantiation
    st4, u4 = common.stubs(sc, ["RadRate"] + ["CS_FluorShell_Kissel_" + v for v in ("no_Cascade", "Radiative_Cascade", "Nonradiative_Cascade", "Cascade")], "kline")
    rm4 = rm + ["CS_FluorShell_Kissel_" + v for v in ("no_Cascade", "Radiative_Cascade", "Nonradiative_Cascade", "Cascade")]
    kwl = dict(sources=["src/kissel_pe.c"], extra=["harness/h_kline.c", st4, common.STATE], remove_bodies=rm4, backends=("cvc5",), timeout=900,
               stubs_used=u4, no_safety=True, export_local=True, native_harness="harness/h_kline.c", restrict_retry="V_RESTRICT_LEAVES")
    for v in ("Cascade", "no_Cascade", "Radiative_Cascade", "Nonradiative_Cascade"):
        gs.append(Group("C08.K2.line.%s.groups" % v, "K2", "lemma_kline_groups", harness_defines=["-DKBASE=" + v], unwind=16,
                        functions=["CS_FluorLine_Kissel_" + v], expect_canaries=["kline other"], **kwl))
        gs.append(Group("C08.K2.line.%s.LB" % v, "K2", "lemma_kline_groups", harness_defines=["-DKBASE=" + v, "-DWITH_LB"], unwind=16,
                        functions=["CS_FluorLine_Kissel_" + v], expect_canaries=["kline LB"], attempt_only=True,
                        note="L-beta = sum of 13 guarded member products: attempted in the thorough tier only", **kwl))
    nlines = len([1 for _, vv in ctx["mac"].lines_all if vv < 0])
    # lines of N, O, P shells (all rejected: no product) in chunks of 32, lines of K..M5 (one product each) in chunks of 8
    first_km = min(vv for n_, vv in ctx["mac"].lines_all if vv < 0 and __import__("re").match(r"^(K|L[123]|M[1-5])(?![0-9])", n_))
    chunks = [(lo, min(lo + 31, first_km - 1)) for lo in range(-nlines, first_km, 32)] + [(lo, min(lo + 7, -1)) for lo in range(first_km, 0, 8)]
    for lo, hi in chunks:
        gs.append(Group("C08.K2.line.Cascade.%d..%d" % (lo, hi), "K2", "lemma_kline_enum", unwind=36,
                        harness_defines=["-DKBASE=Cascade", "-DENUM_LO=(%d)" % lo, "-DENUM_HI=(%d)" % hi],
                        functions=["CS_FluorLine_Kissel_Cascade"], expect_canaries=["enumeration end"], **kwl))
    return gs


def audits(sc, tier, seed):
    return audit.run_table_audit(sc, select=[r"^cross\.kissel", r"^scalar\.Electron_Config"])
