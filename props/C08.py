"""C08 Kissel XRF cross sections equal the cascade model built from the primitives."""
from vlib.core import Group
from vlib import specgen, audit
from . import common

LEVEL = "proof"
EXPLANATION = ("Three layers of K2 value lemmas whose right-hand sides are generated from the macro names: (1) the 16 vacancy-transfer "
               "constant functions of xrf_cross_sections_aux-private.c; (2) the 32 vacancy-production functions of "
               "xrf_cross_sections_aux.c (4 variants x L1..M5); (3) the four CS_FluorShell_Kissel_* variants for each of K..M5 and "
               "for every other shell value. All Z, all energies, all table contents (hence both Kissel configurations).")
ASSUMPTIONS = [
    "A-gen: the glue in pr_data.c main that stores layer (1) into xrf_cross_sections_constants_* is not under contract",
    "orderings none <= radiative <= full need float monotonicity and are not decided",
    "identities are bit-exact in the library's operation order; Auger terms in ascending macro order",
]


def groups(sc, tier):
    ctx = common.prepare(sc)
    (p1, p23), gr, sig = specgen.gen_cascade(sc, ctx["mac"])
    gs = []
    st1, u1 = common.stubs(sc, ["AugerRate", "AugerYield", "FluorYield", "RadRate"], "casc1")
    for name, fn in gr["layer1"]:
        gs.append(Group("C08.K2.L1." + fn, "K2", name, sources=["src/xrf_cross_sections_aux-private.c"], extra=[p1, st1, common.STATE],
                        backends=("cvc5",), timeout=600, functions=[fn], stubs_used=u1, no_safety=True,
                        restrict_retry="V_RESTRICT_LEAVES"))
    st2, u2 = common.stubs(sc, ["CS_Photo_Partial", "FluorYield", "RadRate", "CosKronTransProb"], "casc2")
    for name, fn in gr["layer2"]:
        gs.append(Group("C08.K2.L2." + fn, "K2", name, sources=["src/xrf_cross_sections_aux.c"], extra=[p23, st2, common.STATE],
                        backends=("cvc5",), timeout=600, functions=[fn], stubs_used=u2, no_safety=True, native_harness=p23,
                        restrict_retry="V_RESTRICT_LEAVES"))
    pfuncs = sorted(sig.keys())
    st3, u3 = common.stubs(sc, ["CS_Photo_Partial", "FluorYield"] + pfuncs, "casc3")
    rm = ["CS_Photo_Partial", "CSb_Photo_Partial", "CS_Photo_Total", "CSb_Photo_Total"]
    for name, fn, t, kind in gr["layer3"]:
        gs.append(Group("C08.K2.L3.%s.%s" % (fn, t), "K2", name, sources=["src/kissel_pe.c"], extra=[p23, st3, common.STATE],
                        remove_bodies=rm, backends=("cvc5",), timeout=600, functions=[fn], stubs_used=u3, no_safety=True,
                        export_local=True, native_harness=p23, unwind=33, restrict_retry="V_RESTRICT_LEAVES",
                        expect_canaries=None if t == "other" else ["defined"]))
    return gs


def audits(sc, tier, seed):
    return audit.run_table_audit(sc, select=[r"^cross\.kissel", r"^scalar\.Electron_Config"])
