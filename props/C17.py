"""C17 Concurrent queries from many threads are race-free and agree with serial results (derived)."""
from . import C16

LEVEL = "other"
EXPLANATION = ("Derived, no schedule exploration (CBMC is not asked to explore interleavings): two calls whose write frames are disjoint "
               "caller-owned locations (the *error of each thread, objects fresh in each call - the proved assigns clauses of C16) and whose "
               "read sets are never written commute, hence are data-race-free and return their serial results. What breaks this is exactly "
               "what the frame obligations and the static-state scan of C16 see: any write to a static or global, any mutable "
               "function-local static (a memo that is invisible to C16's 'same bits' is still flagged by the scan), any libc call with "
               "process-global state.")
ASSUMPTIONS = C16.ASSUMPTIONS + ["malloc/free/strdup are thread-safe, libm is re-entrant",
                                 "no interleaving is explored: this is a non-interference corollary, level 'other'"]
groups = C16.groups


def audits(sc, tier, seed):
    return C16.audits(sc, tier, seed, keep_setlocale=True)
