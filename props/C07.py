"""C07 The formula parser computes the true composition of every well-formed formula (composition stage only)."""
import os
import re
from vlib.core import Group, VERIF
from . import common

LEVEL = "other"
EXPLANATION = ("PARTIAL, every obligation bounded (K5). Decided: (1) the outer CompoundParser given the assumed contract of the scanner "
               "(compositions of <= 3 / 5 elements) - elements ascending as scanned, molar mass and atom total BIT-EXACTLY the sums over the elements, "
               "mass fraction BIT-EXACTLY count x atomic weight / molar mass, fractions are numbers, molar mass and atom total positive, NULL iff "
               "exactly one error, elements without an atomic weight rejected, the scanner runs under the C numeric locale and the caller's locale is "
               "restored (ghost model of setlocale), temporaries freed on both outcomes (--memory-leak-check); (2) add_compound_data for 1-2 x 1-2 "
               "(thorough: 1-3 x 1-3) elements: the result lists exactly the union of the two element lists, strictly ascending; (3) the REAL scanner "
               "CompoundParserSimple on a fixed list of formula shapes (A, AB, B3A, AB2A, (AB)2, AbCdB3, ((A)), A(AB), C(BA), A(BC)2, (AB)(CA)3, Ab2(CdA), A2.5(B0.5A)4; thorough also B(A(CD)2)3, D(CA)B(DA)) with the atomic number behind every "
               "letter symbolic (letters may coincide or be unknown symbols) and every subscript value symbolic (or zero): accepted exactly when "
               "all symbols are known and no subscript is zero, exactly one error otherwise, elements strictly ascending without duplicates and equal "
               "as a set to the symbols of the formula, and every bsearch call is made on a strictly ascending list (its C11 precondition); (4) the same "
               "shapes with their subscripts as written (strtod exact) and the atomic numbers still symbolic: the atom count of every element equals "
               "the algebraic expansion of the formula - the sum, over the occurrences of symbols mapped to that element, of the product of the "
               "enclosing multipliers - computed by an independent recursive-descent evaluator (props/C07.py: expand) and covering coinciding "
               "symbols, repeats across groups, nested groups and fractional subscripts. "
               "NOT decided by this family: acceptance/rejection of arbitrary strings, atom counts for formulas outside the shape list or with symbolic "
               "subscripts, invariance under reordering and group expansion (only as far as both rewrites are in the shape list), that the fractions sum to 1 (rounding), and the weighted sums wA*fA + wB*fB of add_compound_data (attempted in the "
               "thorough tier, no back end finishes even for 1 x 1 elements).")
ASSUMPTIONS = [
    "assumed contract of CompoundParserSimple (for the lemmas on CompoundParser only): 0 + exactly one error, or 1..N strictly ascending atomic numbers in 1..107 with atom counts in [1e-6, 1e6) in one malloc'ed array",
    "TABLES_WF: atomic weights are absent (<= 0) or in [1, 1000) (audited natively)",
    "assumed contract of setlocale (C11 7.11.1.1): a non-NULL argument installs that locale and returns the new name, NULL queries; the returned string is overwritten by the next call",
    "assumed libc contracts in executable form (scanner / add_compound_data lemmas): qsort sorts exactly the range passed with the comparison function; bsearch requires an ascending array and returns the matching entry or NULL; realloc preserves the old contents and calloc zero-fills (both typed: harness/realloc_typed.h is force-included into xraylib-parser.c and passes the element size of each call site); strndup copies at most n characters; strtod converts the whole numeral to a value in [1e-6, 1e6) or to 0 (shape lemmas) / to its exact value (count lemmas: short numerals with dyadic values); the ctype predicates are those of the C locale (-D__NO_CTYPE selects the function forms, CBMC's models)",
    "assumed contract of the symbol table lookup (bsearch over MendelArraySorted): a known symbol yields its atomic number in 1..107, an unknown one NULL",
    "bounded: N = 3 (quick) / 5 (thorough) elements; add_compound_data shapes 1-2 x 1-2 (quick) / 1-3 x 1-3 (thorough); scanner: the fixed shape list in harness/h_parser.c",
]


def expand(formula):
    """independent recursive-descent evaluation of a formula shape: [(letter index, multiplier)] for every symbol occurrence"""
    pos = 0

    def number():
        nonlocal pos
        st = pos
        while pos < len(formula) and (formula[pos].isdigit() or formula[pos] == "."):
            pos += 1
        return float(formula[st:pos]) if pos > st else 1.0

    def seq():
        nonlocal pos
        out = []
        while pos < len(formula) and formula[pos] != ")":
            if formula[pos] == "(":
                pos += 1
                inner = seq()
                assert formula[pos] == ")"
                pos += 1
                m = number()
                out += [(l, w * m) for l, w in inner]
            else:
                assert formula[pos].isupper(), formula
                letter = ord(formula[pos]) - 65
                pos += 1
                if pos < len(formula) and formula[pos].islower():
                    pos += 1
                out.append((letter, number()))
        return out
    r = seq()
    assert pos == len(formula), formula
    return r


def groups(sc, tier):
    common.prepare(sc)
    n = 5 if tier == "thorough" else 3
    kw = dict(sources=["src/xraylib-parser.c", "src/xraylib-aux.c"], extra=["harness/h_parser.c"], export_local=True,
              remove_bodies=["__CPROVER_file_local_xraylib_parser_c_CompoundParserSimple"], harness_defines=["-DNMAXEL=%d" % n],
              backends=("cvc5", "z3", "sat"), timeout=1200, unwind=n + 2, leak_check=True, bounded="compositions of <= %d elements" % n)
    gs = [Group("C07.K5.CompoundParser_null", "K5", "lemma_CompoundParser_null", functions=["CompoundParser"], **kw)]
    for k in range(1, n + 1):
        kw2 = dict(kw)
        kw2["harness_defines"] = kw["harness_defines"] + ["-DNEL=%d" % k]
        gs.append(Group("C07.K5.CompoundParser.%d_elements" % k, "K5", "lemma_CompoundParser", functions=["CompoundParser", "FreeCompoundData"], **kw2))
        kw3 = dict(kw2)
        kw3["harness_defines"] = kw2["harness_defines"] + ["-DVALUE_LEMMA", "-DSCAN_OK=1"]
        gs.append(Group("C07.K5.CompoundParser_values.%d_elements" % k, "K5", "lemma_CompoundParser", functions=["CompoundParser"],
                        note="bit-exact molar mass, atom total and mass fractions (scanner outcome fixed to success: single path through the scanner stub)", **kw3))
    shapes = [(2, 2), (1, 2), (2, 1)] if tier != "thorough" else [(a, b) for a in (1, 2, 3) for b in (1, 2, 3)]
    for a, b in shapes:
        gs.append(Group("C07.K5.add_compound_data.%dx%d" % (a, b), "K5", "lemma_add_compound_data", sources=["src/xraylib-parser.c", "src/xraylib-aux.c"],
                        extra=["harness/h_parser.c"], export_local=True, remove_bodies=["__CPROVER_file_local_xraylib_parser_c_CompoundParserSimple"],
                        harness_defines=["-DNMAXEL=%d" % n, "-DLEMMA_ADD", "-DNA_EL=%d" % a, "-DNB_EL=%d" % b], backends=("sat", "cvc5"), timeout=600,
                        defines=["-include", os.path.join(VERIF, "harness/realloc_typed.h")], unwind=8, leak_check=True, functions=["add_compound_data", "compareInt"], attempt_only=True,
                        note="ascending union and wA*fA + wB*fB: no back end finishes within 20 min (symbolic realloc/calloc sizes); thorough tier, attempted",
                        bounded="compositions of %d and %d elements" % (a, b)))
        gs.append(Group("C07.K5.add_compound_data_elements.%dx%d" % (a, b), "K5", "lemma_add_compound_data", sources=["src/xraylib-parser.c", "src/xraylib-aux.c"],
                        extra=["harness/h_parser.c"], export_local=True, remove_bodies=["__CPROVER_file_local_xraylib_parser_c_CompoundParserSimple"],
                        harness_defines=["-DNMAXEL=%d" % n, "-DLEMMA_ADD", "-DELEMENTS_ONLY", "-DNA_EL=%d" % a, "-DNB_EL=%d" % b], backends=("sat", "cvc5"), timeout=600,
                        defines=["-include", os.path.join(VERIF, "harness/realloc_typed.h")], unwind=8, leak_check=True, functions=["add_compound_data", "compareInt"],
                        bounded="compositions of %d and %d elements" % (a, b)))
    m = re.search(r'g_shapes\[\] = \{([^}]*)\}', open(os.path.join(VERIF, "harness/h_parser.c")).read())
    shapes_txt = re.findall(r'"([^"]*)"', m.group(1))
    n_quick = len(re.findall(r'"([^"]*)"', m.group(1).split("/*THOROUGH*/")[0]))
    for k, txt in enumerate(shapes_txt):
        if tier != "thorough" and k >= n_quick:
            continue
        gs.append(Group("C07.K5.scanner_shape.%d" % k, "K5", "lemma_scanner_shape", sources=["src/xraylib-parser.c", "src/xraylib-aux.c"], extra=["harness/h_parser.c"],
                        export_local=True, defines=["-D__NO_CTYPE", "-include", os.path.join(VERIF, "harness/realloc_typed.h")], harness_defines=["-DNMAXEL=%d" % n, "-DLEMMA_SCAN", "-DSHAPE=%d" % k] + (["-DNO_COUNTS"] if re.search(r"[0-9]", txt) else []),
                        backends=("sat", "cvc5"), timeout=1800, unwind=20, functions=["CompoundParserSimple", "compareCompoundAtoms"],
                        # at most 4 distinct elements: tight bounds for the loops over the element list (unwinding assertions stay on)
                        flags=["--unwindset", ",".join("%s:6" % l for l in ("qsort.0", "qsort.1", "bsearch.0", "bsearch.1", "xrlv_realloc.0", "xrlv_realloc.1",
                                                                          "__CPROVER_file_local_xraylib_parser_c_CompoundParserSimple.6"))],
                        bounded="formula shape '%s'; atomic numbers behind the letters and subscript values symbolic" % txt))
        occ = expand(txt)
        gs.append(Group("C07.K5.scanner_counts.%d" % k, "K5", "lemma_scanner_shape", sources=["src/xraylib-parser.c", "src/xraylib-aux.c"], extra=["harness/h_parser.c"],
                        export_local=True, defines=["-D__NO_CTYPE", "-include", os.path.join(VERIF, "harness/realloc_typed.h")],
                        harness_defines=["-DNMAXEL=%d" % n, "-DLEMMA_SCAN", "-DSHAPE=%d" % k, "-DCONCRETE_SUBSCRIPTS", "-DNOCC=%d" % len(occ),
                                         "-DOCC={%s}" % ",".join("{%d,%r}" % (l, w) for l, w in occ)],
                        backends=("sat", "cvc5"), timeout=1800, unwind=20, functions=["CompoundParserSimple", "compareCompoundAtoms"],
                        flags=["--unwindset", ",".join("%s:6" % l for l in ("qsort.0", "qsort.1", "bsearch.0", "bsearch.1", "xrlv_realloc.0", "xrlv_realloc.1",
                                                                          "__CPROVER_file_local_xraylib_parser_c_CompoundParserSimple.6"))],
                        bounded="formula shape '%s' with its subscripts as written; atomic numbers behind the letters symbolic (letters may coincide)" % txt))
    return gs


def audits(sc, tier, seed):
    from vlib import audit
    return audit.run_table_audit(sc, select=[r"^scalar\.AtomicWeight"])
