"""C07 The formula parser computes the true composition of every well-formed formula (composition stage only)."""
from vlib.core import Group
from . import common

LEVEL = "other"
EXPLANATION = ("PARTIAL. Decided (bounded, K5, compositions of <= 3 / 5 elements): the outer CompoundParser given the assumed contract of "
               "the scanner - elements ascending as scanned, total atom count, molar mass, mass fraction = count x atomic weight / molar "
               "mass (bit-exact: attempted in the thorough tier only, no back end finishes), fractions are numbers, molar mass positive, NULL iff exactly one error, elements without an atomic weight rejected, the scanner "
               "runs under the C numeric locale and the caller's locale is restored (ghost model of setlocale), temporaries freed on both "
               "outcomes (--memory-leak-check). NOT decided by this family: everything inside the scanner CompoundParserSimple - acceptance of "
               "well-formed formulas, the rejection classes, atom counts equal to the algebraic expansion, invariance under reordering and "
               "group expansion (the scanner does not finish in CBMC even for strings of length 2, and a specification of 'the algebraic "
               "expansion' would itself be a parser, i.e. a model). add_compound_data: a bounded lemma exists (ascending union, wA*fA + wB*fB) but no back end finishes; attempted in the thorough tier only, NOT decided.")
ASSUMPTIONS = [
    "assumed contract of CompoundParserSimple: 0 + exactly one error, or 1..N strictly ascending atomic numbers in 1..107 with atom counts in [1e-6, 1e6) in one malloc'ed array",
    "TABLES_WF: atomic weights are absent (<= 0) or in [1, 1000) (audited natively)",
    "assumed contract of setlocale (C11 7.11.1.1): a non-NULL argument installs that locale and returns the new name, NULL queries; the returned string is overwritten by the next call",
    "bounded: N = 3 (quick) / 5 (thorough) elements",
]


def groups(sc, tier):
    common.prepare(sc)
    n = 5 if tier == "thorough" else 3
    kw = dict(sources=["src/xraylib-parser.c", "src/xraylib-aux.c"], extra=["harness/h_parser.c"], export_local=True,
              remove_bodies=["__CPROVER_file_local_xraylib_parser_c_CompoundParserSimple"], harness_defines=["-DNMAXEL=%d" % n],
              backends=("cvc5", "z3", "sat"), timeout=1200, unwind=n + 2, leak_check=True, bounded="compositions of <= %d elements" % n)
    gs = [Group("C07.K5.CompoundParser_null", "K5", "lemma_CompoundParser_null", functions=["CompoundParser"], **kw)]
    for k in range(1, n + 1):
        kw2 = dict(kw)
        kw2["harness_defines"] = kw["harness_defines"] + ["-DNEL=%d" % k]
        gs.append(Group("C07.K5.CompoundParser.%d_elements" % k, "K5", "lemma_CompoundParser", functions=["CompoundParser", "FreeCompoundData"], **kw2))
        kw3 = dict(kw2)
        kw3["harness_defines"] = kw2["harness_defines"] + ["-DVALUE_LEMMA"]
        gs.append(Group("C07.K5.CompoundParser_values.%d_elements" % k, "K5", "lemma_CompoundParser", functions=["CompoundParser"],
                        attempt_only=True, note="bit-exact molar mass and mass fractions: no back end finishes (heap arrays between code and specification)", **kw3))
    shapes = [(2, 2), (1, 2), (2, 1)] if tier != "thorough" else [(a, b) for a in (1, 2, 3) for b in (1, 2, 3)]
    for a, b in shapes:
        gs.append(Group("C07.K5.add_compound_data.%dx%d" % (a, b), "K5", "lemma_add_compound_data", sources=["src/xraylib-parser.c", "src/xraylib-aux.c"],
                        extra=["harness/h_parser.c"], export_local=True, remove_bodies=["__CPROVER_file_local_xraylib_parser_c_CompoundParserSimple"],
                        harness_defines=["-DNMAXEL=%d" % n, "-DLEMMA_ADD", "-DNA_EL=%d" % a, "-DNB_EL=%d" % b], backends=("sat", "cvc5"), timeout=1200,
                        unwind=a + b + 3, leak_check=True, functions=["add_compound_data", "compareInt"], attempt_only=True,
                        note="ascending union and wA*fA + wB*fB: no back end finishes within 20 min (symbolic realloc/calloc sizes); thorough tier, attempted",
                        bounded="compositions of %d and %d elements" % (a, b)))
    return gs


def audits(sc, tier, seed):
    from vlib import audit
    return audit.run_table_audit(sc, select=[r"^scalar\.AtomicWeight"])
