"""C04 No call sequence corrupts, over-reads or leaks memory."""
from vlib.core import Group
from vlib import audit
from . import common, C01, C02, C03, C05, C06

LEVEL = "proof"
EXPLANATION = ("CBMC's built-in safety obligations (array bounds, pointer validity incl. use-after-free and double free, pointer primitives, "
               "signed overflow, division by zero, conversions, shifts) are switched on for every function under K1 contract and every "
               "cheap K2 lemma, for all arguments satisfying ERR_SLOT + finite doubles + TABLES_WF; splint with its loop contract for every "
               "number of knots; ownership: error objects (set / copy / propagate / clear leave nothing allocated, --memory-leak-check), "
               "temporaries of the _CP / refractive-index functions released on every exit (ghost allocation counters).")
ASSUMPTIONS = [
    "not covered (listed as unverified): the formula scanner CompoundParserSimple, Crystal_ReadFile (stdio), XRayInitFromPath / pr_data.c main (build time)",
    "A-libc: malloc never fails; ctype functions accept any char",
    "bounded parts: error messages <= 3 characters, compositions <= 3 elements (K5, not counted as proved)",
]

INTERP = [("CS_Photo", "src/cross_sections.c"), ("CS_Rayl", "src/cross_sections.c"), ("CS_Compt", "src/cross_sections.c"),
          ("CS_Energy", "src/cross_sections.c"), ("Fi", "src/fi.c"), ("Fii", "src/fii.c"), ("FF_Rayl", "src/scattering.c"),
          ("SF_Compt", "src/scattering.c"), ("ComptonProfile", "src/comptonprofiles.c"),
          ("ComptonProfile_Partial", "src/comptonprofiles.c"), ("CSb_Photo_Partial", "src/kissel_pe.c")]


def interp_groups(sc, prefix="C04"):
    gs = []
    for f, src in INTERP:
        gs.append(Group("%s.K2.safe.%s" % (prefix, f), "K2", "safe_" + f, sources=[src],
                        extra=["harness/h_interp_safe.c", "harness/libm_uf.c", common.STATE], backends=("z3", "cvc5", "sat"), timeout=900,
                        functions=[f], export_local=(src == "src/kissel_pe.c"), unwind=33 if src == "src/kissel_pe.c" else None,
                        note="memory safety under TABLES_WF: arrays of N doubles of their own, N symbolic",
                        stubs_used=["splint: asserts its needs (readable xa/ya/y2a[1..n], writable *y, empty slot), arbitrary outcome"]))
    return gs


def groups(sc, tier):
    common.prepare(sc)
    gs = interp_groups(sc)
    gs.append(C02.splint_group(sc, "C04.via_C02"))
    own = [g for g in C01.groups(sc, tier) if g.kind == "K1"] + C03.own_groups(sc, tier, "C04.via_C03")
    own = [g for g in own if "noslot" not in g.name]
    for g in own:
        if g.name.startswith("C01."):
            g.name = "C04.via_" + g.name
    gs += own
    barns = [g for g in C05.value_groups(sc, tier, "C04.safety_of_C05", no_safety=False) if "Kissel" not in g.name and "Photo_" not in g.name]
    gs += barns
    cp = [g for g in C06.groups(sc, tier) if ".formula" in g.name or ".nist" in g.name]
    if tier != "thorough":
        # quick tier: the three refractive-index entry points and one representative of the macro-generated _CP family
        # (all 21 share the two macro bodies CS_CP_BEGIN / CS_CP_END; C06 itself runs every one of them)
        cp = [g for g in cp if "Refractive" in g.name or "CS_Total_CP" in g.name or "DCSP_Rayl_CP" in g.name]
    for g in cp:
        g.name = "C04.via_" + g.name
    gs += cp
    return gs


def audits(sc, tier, seed):
    return audit.run_table_audit(sc, select=[r"^spline\.", r"^compton\.shape", r"^cross\.kissel_occupied"])
