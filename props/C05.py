"""C05 Totals, per-atom and differential cross sections obey their defining identities."""
from vlib.core import Group
from . import common

LEVEL = "proof"
EXPLANATION = ("K2 value lemmas: the real body of each aggregate / unit variant, callees as UF leaves, compared bit-exactly "
               "with the identity of the property for all Z, all finite energies/angles, all table contents.")
ASSUMPTIONS = [
    "TABLES_WF(cross-table): an element with Kissel data, a form-factor or a scattering-function table has a positive finite atomic weight (audited natively)",
    "identities are bit-exact in the library's operation order (a float re-association is reported)",
    "A-underflow: a successful strictly positive leaf is non-zero (stub fact v > 0)",
]

# (lemma/function, real source, callees whose bodies are replaced by UF stubs, tables made symbolic)
BARNS = ["CSb_Total", "CSb_Photo", "CSb_Rayl", "CSb_Compt", "CSb_FluorLine", "CSb_FluorShell",
         "DCSb_Rayl", "DCSb_Compt", "DCSPb_Rayl", "DCSPb_Compt"]
BARN_TWIN = {"CSb_Total": "CS_Total", "CSb_Photo": "CS_Photo", "CSb_Rayl": "CS_Rayl", "CSb_Compt": "CS_Compt",
             "CSb_FluorLine": "CS_FluorLine", "CSb_FluorShell": "CS_FluorShell", "DCSb_Rayl": "DCS_Rayl",
             "DCSb_Compt": "DCS_Compt", "DCSPb_Rayl": "DCSP_Rayl", "DCSPb_Compt": "DCSP_Compt"}


def value_groups(sc, tier, prefix, no_safety=True):
    common.prepare(sc)
    gs = []

    def mk(fn, src, leaves, tables, remove=(), unwind=None, timeout=600, canaries=None, export_local=False, attempt_only=False):
        stub, used = common.stubs(sc, leaves, fn)
        return Group("%s.K2.%s" % (prefix, fn), "K2", "lemma_" + fn, sources=[src],
                     extra=["harness/h_cs.c", stub, common.STATE], remove_bodies=remove,
                     nondet_static=None, unwind=unwind,
                     backends=("cvc5",), timeout=timeout, functions=[fn], native_harness="harness/h_cs.c",
                     stubs_used=used, no_safety=no_safety, expect_canaries=canaries, export_local=export_local,
                     restrict_retry="V_RESTRICT_LEAVES", attempt_only=attempt_only)

    gs.append(mk("CS_Total", "src/cross_sections.c", ["CS_Photo", "CS_Rayl", "CS_Compt"], ["NE_Photo", "NE_Rayl", "NE_Compt"],
                 remove=["CS_Photo", "CS_Rayl", "CS_Compt", "CS_Energy"]))
    kis_remove = ["CS_Photo_Total", "CSb_Photo_Total", "CSb_Photo_Partial", "CS_Photo_Partial", "CS_Total_Kissel",
                  "CS_FluorLine_Kissel_Cascade", "CS_FluorShell_Kissel_Cascade"]
    ktabs = ["NE_Photo_Total_Kissel", "NE_Rayl", "NE_Compt", "Electron_Config_Kissel", "AtomicWeight_arr"]
    gs.append(mk("CS_Total_Kissel", "src/kissel_pe.c", ["CS_Photo_Total", "CS_Rayl", "CS_Compt"], ktabs,
                 remove=[x for x in kis_remove if x != "CS_Total_Kissel"], unwind=5, export_local=True))
    gs.append(mk("CSb_Photo_Total", "src/kissel_pe.c", ["CSb_Photo_Partial"], ktabs,
                 remove=[x for x in kis_remove if x != "CSb_Photo_Total"], unwind=33, export_local=True, attempt_only=True, timeout=3000))
    gs.append(mk("CS_Photo_Total", "src/kissel_pe.c", ["CSb_Photo_Total"], ktabs,
                 remove=[x for x in kis_remove if x != "CS_Photo_Total"], unwind=33, export_local=True,
                 canaries=["CS_Photo_Total defined"]))
    gs.append(mk("CS_Photo_Partial", "src/kissel_pe.c", ["CSb_Photo_Partial"], ktabs,
                 remove=[x for x in kis_remove if x != "CS_Photo_Partial"], unwind=33, export_local=True))
    for fb, f in (("CSb_Total_Kissel", "CS_Total_Kissel"), ("CSb_FluorLine_Kissel", "CS_FluorLine_Kissel_Cascade"),
                  ("CSb_FluorShell_Kissel", "CS_FluorShell_Kissel_Cascade")):
        gs.append(mk(fb, "src/kissel_pe.c", [f], ktabs, remove=kis_remove, unwind=33, export_local=True))
    for fb in BARNS:
        gs.append(mk(fb, "src/cs_barns.c", [BARN_TWIN[fb], "AtomicWeight"], []))
    gs.append(mk("DCS_Rayl", "src/scattering.c", ["MomentTransf", "FF_Rayl", "AtomicWeight", "DCS_Thoms"], [],
                 remove=["MomentTransf", "FF_Rayl", "SF_Compt", "DCS_Thoms", "DCS_KN"]))
    gs.append(mk("DCS_Compt", "src/scattering.c", ["MomentTransf", "SF_Compt", "AtomicWeight", "DCS_KN"], [],
                 remove=["MomentTransf", "FF_Rayl", "SF_Compt", "DCS_Thoms", "DCS_KN"]))
    gs.append(mk("DCSP_Rayl", "src/polarized.c", ["MomentTransf", "FF_Rayl", "AtomicWeight", "DCSP_Thoms"], [],
                 remove=["DCSP_Thoms", "DCSP_KN"]))
    gs.append(mk("DCSP_Compt", "src/polarized.c", ["MomentTransf", "SF_Compt", "AtomicWeight", "DCSP_KN"], [],
                 remove=["DCSP_Thoms", "DCSP_KN"]))
    return gs


def groups(sc, tier):
    return value_groups(sc, tier, "C05")
