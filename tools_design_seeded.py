#!/usr/bin/env python3
"""Rebuild DESIGN.md = design_src/head.md + design_src/tail.md + the seeded-change table generated from seeded/*/{meta.json,detect.txt,confirm.txt}."""
import json, os, glob, re
S = '/verif/seeded'
rows = []
for d in sorted(glob.glob(S + '/*/')):
    i = os.path.basename(d.rstrip('/'))
    meta = json.load(open(d + 'meta.json')) if os.path.exists(d + 'meta.json') else {}
    det = open(d + 'detect.txt').read().strip() if os.path.exists(d + 'detect.txt') else 'not run yet'
    conf = open(d + 'confirm.txt').read().strip() if os.path.exists(d + 'confirm.txt') else ''
    m = re.search(r'\[(C\d+): exit (\d+), (\d+) VIOLATION', det)
    caught = 'yes' if m and m.group(2) == '1' and int(m.group(3)) > 0 else ('undecided (exit 2)' if m and m.group(2) == '2' else ('NO' if m else det[:60]))
    ob = ''
    mm = re.search(r'obligation=(\S+) \[([^\]]+)\]', det)
    if mm:
        ob = '`%s` in `%s`' % (mm.group(1), mm.group(2))
    else:
        mm = re.search(r'audit=(\S+)', det)
        if mm:
            ob = 'audit `%s`' % mm.group(1)
    also = re.findall(r'\[(C\d+): exit (\d+), (\d+) VIOLATION', det)[1:]
    extra = '; '.join('%s: %s' % (a, 'yes' if b == '1' else 'exit ' + b) for a, b, c in also)
    rows.append('| %s | %s | %s | %s | %s%s |' % (i, meta.get('summary', ''), meta.get('needs', ''), caught, ob, (' — also ' + extra) if extra else ''))
table = '\n'.join(['| id | change | needs, to manifest | caught | first failed obligation |', '|---|---|---|---|---|'] + rows)
head = open('/verif/design_src/head.md').read()
tail = open('/verif/design_src/tail.md').read()
sec10 = open('/verif/design_src/section10.md').read().replace('<!-- SEEDED-TABLE -->', table)
open('/verif/DESIGN.md', 'w').write(head + tail + sec10)
print(len(rows), 'seeded rows')
