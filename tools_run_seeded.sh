#!/bin/sh
# usage: tools_run_seeded.sh <seeded id> <property> [extra check args]   - apply, run the check, undo
id=$1; prop=$2; shift 2
[ -n "$(git -C /repo status --porcelain --untracked-files=no)" ] && { echo "/repo has uncommitted changes"; exit 2; }
git -C /repo apply /verif/seeded/$id/patch.diff || { echo "patch does not apply"; exit 2; }
/verif/check $prop "$@" > /tmp/seeded-$id-$prop.log 2>&1; rc=$?
git -C /repo checkout -- .
echo "$id on $prop: exit $rc; $(grep -c '^VIOLATION' /tmp/seeded-$id-$prop.log) violation line(s)"
grep '^VIOLATION' /tmp/seeded-$id-$prop.log | sed 's/replay=[^ ]* //' | cut -c1-260 | head -4
exit 0
