#!/usr/bin/env python3
"""Regenerate MANIFEST.json from the property modules (claimed list below) - keeps levels/notes in one place."""
import json, importlib, sys
sys.path.insert(0, '/verif')
CLAIMED = {
 "C01": ("proof", "CBMC function contracts (dfcc enforce/replace) on the 11 real scalar accessors + K2 lemmas for the single-line branches of LineEnergy/RadRate + constant-data lemma macro<->slot<->name (1,421 macros)",
         "every accessor is enforced against the functional post-condition of the statement for all int arguments and all NaN-free tables; the name chain the build-time parser files records by is checked macro by macro",
         "A-gen (data file -> table: xrayfiles.c parser, pr_data.c printer) is not decided; TABLES_WF audited natively (K4)"),
 "C02": ("proof", "loop contract on the real splint (bracket invariant, decreases) + UF-leaf value lemmas for the 12 call sites",
         "splint: failure <=> outside [first knot, last knot + 1e-7], all reads in bounds for every n, termination, adjacent bracketing interval; each interpolated quantity = post(splint(its own table triple, N, pre(arg))), incl. the Kissel log-log extension",
         "the cubic formula itself and knot-exactness are float identities over mult/div: not decided; 1e-7 guard band stated; A-gen; known finding: one unsorted knot in data/CS_Photo.dat (Z=96)"),
 "C03": ("proof", "K1 protocol contracts (setter contract requires an empty slot at every call site) + protocol halves of the K2 value lemmas (incl. the diffraction lemmas of C13) + real error-object code + two-run no-slot lemmas",
         "error iff failure, exactly one error, never over an existing one, no slot changes nothing but reporting - for every function under contract (scalar accessors, closed-form functions, aggregates, unit variants, differential and fluorescence functions)",
         "finiteness of exp/asin results not decided (A-libm); A-underflow; functions outside the contract set (parser scanner, crystal code, catalogue lookups) are not covered here"),
 "C04": ("proof", "CBMC built-in safety obligations on every K1/K2 group, splint loop contract for all n, plain-mode safety lemmas for the 11 interpolating call sites under TABLES_WF, leak checks (error objects, _CP/refractive temporaries)",
         "memory safety for all arguments of the functions under contract; ownership of error objects and temporaries",
         "formula scanner, Crystal_ReadFile, crystal container and catalogue lookups are not covered by this check (listed as unverified); bounded parts labelled K5"),
 "C05": ("proof", "UF-leaf value lemmas (K2) on the real bodies of 21 aggregates / unit variants / differential cross sections, bit-exact by congruence (cvc5)",
         "totals, barn twins, Rayleigh/Compton differential identities at the momentum transfer of (E, theta); undefined part => 0 + one error",
         "CSb_Photo_Total (31-term occupancy sum) is attempted in the thorough tier only (no back end finishes); bit-exact in the library's operation order"),
 "C06": ("other", "K5 value lemmas on the 21 macro-generated _CP functions and 3 refractive-index entry points with the parser/NIST lookup replaced by assumed contracts (ghost composition)",
         "mixture rule, resolution order, density fall-back, failing element fails the call, temporaries released on every exit",
         "bounded: compositions of <= 3 (quick) / 5 (thorough) elements - labelled bounded, not proof; parser/NIST contracts assumed here"),
 "C08": ("proof", "136 UF-leaf value lemmas: three layers whose right-hand sides are generated from the macro names (Auger sums, Coster-Kronig macros, line macros) + the line dispatch with every line macro enumerated",
         "transfer constants = yield x rate + Auger yield x name-derived Auger sum (double holes twice); vacancy production per variant; shell cross section = vacancy chain x yield for K..M5 in all 4 variants",
         "L-beta sums of the Kissel line functions attempted in the thorough tier only; single-line enumeration for the full-cascade instantiation of the shared macro; orderings none<=rad<=full not decided; glue in pr_data.c main (A-gen)"),
 "C09": ("proof", "UF-leaf value lemmas on CS_FluorShell + the four static Jump_from_* functions (symbolic edges: every energy regime) and CS_FluorLine (every line macro enumerated with a constant line, all other ints symbolic)",
         "shell cross section = photo x jump share x yield in every regime, each unavailable primitive is an error; line = rate x shell value; L-beta per-sub-shell factorised sum",
         "bit-exact in the library's operation order; L-beta compared in factorised form"),
 "C10": ("proof", "UF-leaf / symbolic-table value lemmas on RadRate, LineEnergy, LineEnergyComposed with group membership derived from macro names",
         "KA/KB/LA/doublet/KO/KP energies and KA/KB/LA rates equal the statement's expressions bit-exactly; LB rate rejected",
         "LineEnergy(LB) (13 guarded products) is attempted in the thorough tier only; 'between min and max' corollary not asserted"),
 "C11": ("proof", "UF-leaf value lemmas on the three static derivation functions of pr_data.c (all 996 macros enumerated in chunks) + K1 contracts of AugerRate/AugerYield",
         "yield = 1 - omega - sum CK (by name); net total = total - CK-type transitions (by name); rate = raw / net total of the transition's own shell; CK-type unavailable",
         "glue loop in pr_data.c main not under contract (A-gen); [0,1] bounds not decided"),
 "C07": ("other", "bounded lemma harnesses on the real outer CompoundParser (scanner replaced by its assumed contract, setlocale by a ghost-state model), the real add_compound_data, and the real scanner CompoundParserSimple on fixed formula shapes with symbolic atomic numbers and subscripts (libc by executable contracts)",
         "PARTIAL: composition stage - element order and counts as scanned, molar mass / atom total bit-exactly the sums, mass fraction bit-exactly count x atomic weight / molar mass, positive molar mass, fractions are numbers, NULL iff exactly one error, elements without atomic weight rejected, scanner runs under the C locale and the caller's locale is restored, no leak; add_compound_data returns exactly the ascending union; scanner on 13 (thorough: 15) formula shapes incl. nested and merged groups, atom counts = algebraic expansion for the written subscripts with symbolic (possibly coinciding) elements; accepted iff symbols known and subscripts non-zero, elements strictly ascending without duplicates = the formula's symbols, bsearch only on ascending lists",
         "NOT decided: arbitrary strings (grammar, rejection classes), atom counts outside the shape list or for symbolic subscripts, invariances, fractions summing to 1, wA*fA + wB*fB of add_compound_data (attempted, thorough tier); bounded to <= 3 / 5 elements, 1-2 x 1-2 (1-3 x 1-3) for add_compound_data, the fixed shape list"),
 "C13": ("other", "UF-leaf congruence lemmas (Bragg angle, Q, atomic factors) + bounded structure-factor lemmas on the real Crystal_F_H_StructureFactor_Partial with constant flags and atomic numbers",
         "PARTIAL: error protocol incl. 'no reflection => error, never NaN', NULL crystal, atomic numbers outside the tables, invalid flags; Bragg angle = asin(hc/E / 2d); Q = E sin(rel theta)/hc; structure factor = explicit sum over atoms with the reported atomic factors (per-element cache, flag semantics)",
         "NOT decided: Bragg's law, d-spacing invariances, reciprocal-metric agreement, Friedel's law, flag additivity, (0,0,0) Debye reduction (real algebra over libm); bounded to 2 atoms"),
 "C14": ("other", "per-operation preservation of the representation invariant from an arbitrary well-formed array of each shape (capacity, fill) within the bound; executable contracts for qsort/bsearch; leak and double-free checks",
         "add (incl. growth beyond capacity, duplicates rejected with the collection unchanged, independent copy, recomputed volume, sorted order), lookup / copy, list, init, free, built-in collection refusing to grow - inductive over histories because every operation maps well-formed states to well-formed states",
         "bounded: capacity <= 3 (quick) / 4 (thorough) with every fill level, one-character symbolic names, 1 / 2 atoms; Crystal_ReadFile (stdio) not covered"),
 "C15": ("proof", "constant-data lemmas over the real catalogue initialisers (compiled into the harness unit) + lookup lemmas on the real bodies with leak checks + symbol round trip",
         "NIST / radionuclide / element data well-formedness, index macros name the entries at their positions, by-index = independent deep copy for every entry, by-name agrees, out of range / unknown / NULL = NULL + one error, nothing left allocated, symbol <-> Z bijection",
         "built-in crystal catalogue (19 MB generated file) and 'nuclide lines have an energy for the daughter' are not part of this check; by-name lookup for 8 entries in quick, all 180 in thorough; lfind by executable contract"),
 "C16": ("proof", "assigns clauses of all K1 contracts (dfcc frame obligations) + static-state scan over the goto programs of every library source",
         "no function under contract writes anything but *error; no direct write to / mutable local static / escaping address of a static object and no global-state libc call anywhere in the library",
         "scan is syntactic (direct writes); functions not under K1 contract rely on the scan only; known finding: setlocale in CompoundParser"),
 "C17": ("other", "non-interference corollary of C16's proved frames + static-state scan (no schedule exploration)",
         "derived: disjoint caller-owned write frames and never-written read sets commute; what breaks it is what the frame obligations and the scan see",
         "no interleaving explored; libc thread-safety assumed; known finding: setlocale in CompoundParser"),
}
NA = {
 'C12': "closed-form scattering relations are statements of real analysis (integrals over the solid angle, azimuthal averages, the E->0 limit, monotonic decrease, 2pi-periodicity) about cos/sin/log: CBMC has no reals and no libm semantics, and any float fact that is not a pure congruence does not finish on any installed solver (DESIGN 2, P3); no contract within reach expresses or decides it (the E<=0 error clause of these functions is covered under C03)",
 'C18': "xraylib++.h is variadic templates over std::string/std::vector/std::complex and exceptions; CBMC's C++ front end rejects every libstdc++ header and contract syntax in C++ mode and has no exception semantics; rewriting the wrappers in a C subset would be proving a model",
 'C19': "no deductive verifier for Java is installed (no JBMC/KeY/OpenJML) and observational equivalence between a JVM program and C cannot be stated as a CBMC contract",
 'C20': "the objects compared are Fortran, Pascal, Cython, IDL, Java and SWIG source texts and build-system version strings; none is a program CBMC can read, and the deciding step would be a per-language lexer, i.e. a different technique",
}
PENDING = {}
def main():
    extra = json.load(open('/verif/manifest_extra.json')) if __import__('os').path.exists('/verif/manifest_extra.json') else {}
    CLAIMED.update({k: tuple(v) for k, v in extra.get("claimed", {}).items()})
    PENDING.update(extra.get("pending", {}))
    props = [json.loads(l) for l in open('/verif/properties.jsonl')]
    m = {"version": 1, "setup_cmd": "sh /verif/setup.sh",
         "hooks": {"guard": "XRAYLIB_VERIF", "enable": "none needed: contracts are attached to re-declared prototypes in /verif/contracts, loop clauses are injected into a scratch copy, static functions are reached with goto-cc --export-file-local-symbols; /repo is compiled unmodified",
                   "baseline_off_cmd": "ninja -C /repo/_build && meson test -C /repo/_build", "source_commits": [], "add_only": True},
         "engines": [{"name": "xrlv", "path": "/verif/check", "serves_properties": sorted(CLAIMED),
                      "kind_free_text": "CBMC 6.11 code contracts and lemma harnesses on the real /repo sources (goto-cc, goto-instrument --dfcc, cbmc with cvc5/z3/SAT), native replay of counterexamples"}],
         "checks": [], "notes": "Contract-based deductive verification with CBMC; see DESIGN.md. Exit 0 proved / 1 violation / 2 undecided.", "not_applicable": []}
    for p in props:
        i = p['id']
        if i in CLAIMED:
            lvl, tech, text, note = CLAIMED[i]
            m["checks"].append({"property_id": i, "quick_cmd": "./check %s --tier quick" % i, "thorough_cmd": "./check %s --tier thorough" % i,
                                "evidence_file": "/verif/evidence/%s.json" % i, "replay_cmd_template": "./check %s --replay {path}" % i, "engine": "xrlv",
                                "level_claimed": {"category": lvl, "text": text, "design_ref": "DESIGN.md section 5 (%s)" % i},
                                "level_note": note, "technique": tech})
        elif i in NA:
            m["not_applicable"].append({"property_id": i, "reason": NA[i]})
        else:
            m["not_applicable"].append({"property_id": i, "reason": PENDING.get(i, "not claimed: the check for this property has not been built in this session; see DESIGN.md section 5 for the planned contracts")})
    json.dump(m, open('/verif/MANIFEST.json', 'w'), indent=1)
    print("claimed:", sorted(CLAIMED))
main()
